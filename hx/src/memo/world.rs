//! C20: `weak_memoize_fn` in lock-step with a reference model of "who may still reference the
//! node of key k". See `mod.rs` for the overview.

use crate::core::*;
use incremental::{Incr, IncrState, Observer, Var, WeakIncr};
use serde_json::{json, Value as Json};
use std::cell::RefCell;

#[derive(Clone, Debug)]
pub struct MemoProg {
    /// number of top-level binds `bv_i.bind(|d| memo(d % 2))` (after the nested one, if any)
    pub binds: u8,
    /// bind 0 is `bv_0.bind(|d0| bv_1.bind(|d1| memo((d0 + d1) % 2)))`; it uses two variables
    pub nested: bool,
    pub max_slots: u8,
    pub max_obs: u8,
}

impl MemoProg {
    fn n_binds(&self) -> usize {
        self.binds as usize + self.nested as usize
    }
    fn n_vars(&self) -> usize {
        self.binds as usize + if self.nested { 2 } else { 0 }
    }
    /// variables read by bind i
    fn vars_of(&self, i: usize) -> Vec<usize> {
        if self.nested {
            if i == 0 {
                vec![0, 1]
            } else {
                vec![i + 1]
            }
        } else {
            vec![i]
        }
    }
}

#[derive(Clone, Debug, PartialEq)]
pub enum Act {
    Stabilise,
    CallTop(u8),
    ObserveBind(u8),
    SetBindVar(u8, u8),
    SetBase(u32),
    ObserveSlot(u8),
    DropSlot(u8),
    DropObserver(u8),
    /// drop the harness' handle on bind i (an observer may keep the bind alive)
    DropBind(u8),
}

#[derive(Clone)]
enum Ev {
    /// the underlying function ran
    Call { k: u8, id: usize, weak: WeakIncr<u32> },
    /// a bind closure obtained `id` from the memoised function for key k
    BindRun { bind: u8, k: u8, id: usize },
}

thread_local! {
    static LOG: RefCell<Vec<Ev>> = RefCell::new(vec![]);
}
fn log(e: Ev) {
    LOG.with(|l| l.borrow_mut().push(e));
}
fn take_log() -> Vec<Ev> {
    LOG.with(|l| std::mem::take(&mut *l.borrow_mut()))
}

#[derive(Clone, Copy, Debug, PartialEq)]
enum What {
    Slot { key: u8, node: usize, in_bind: bool },
    Bind(u8),
}

struct Obs {
    what: What,
    handle: Observer<u32>,
}

struct Real {
    state: IncrState,
    base: Var<u32>,
    bvars: Vec<Var<u8>>,
    binds: Vec<Option<Incr<u32>>>,
    memo: Box<dyn FnMut(u8) -> Incr<u32>>,
    slots: Vec<Option<(u8, Incr<u32>)>>,
    observers: Vec<Option<Obs>>,
}

struct CacheEnt {
    id: usize,
    weak: WeakIncr<u32>,
    in_bind: bool,
}

pub struct MemoWorld {
    prog: MemoProg,
    real: Option<Real>,
    // ---- reference model
    base: u32,
    bv: Vec<u8>,
    /// mirror of the memo table: node created by the last underlying call for key k
    cache: [Option<CacheEnt>; 2],
    /// key returned by the last run of bind i's memo-calling closure (a possible reference)
    bind_last_key: Vec<Option<u8>>,
    /// observers on a key-k node dropped since the last stabilise (still linked in the engine)
    zombies: [u8; 2],
    /// complete stabilises during which key k had no possible reference (saturates at 2)
    clean_stabs: [u8; 2],
    dead: bool,
    obs_hash: u64,
    counters: Counters,
    explain: String,
}

fn v(rule: &'static str, sig: impl Into<String>, detail: impl Into<String>) -> Violation {
    Violation::new("C20", rule, sig, detail)
}

/// The memo key: equality by value, but every key hashes alike. `Hash` only has to be consistent with `Eq`, it need
/// not be injective, so the table must tell colliding keys apart by `Eq` (after seed C20-f, which keyed the table by
/// the hash).
#[derive(Clone, PartialEq, Eq, Debug)]
struct MKey(u8);
impl std::hash::Hash for MKey {
    fn hash<H: std::hash::Hasher>(&self, state: &mut H) {
        0u8.hash(state);
    }
}

fn build(prog: &MemoProg) -> Real {
    let state = IncrState::new();
    let base = state.var(0u32);
    let bvars: Vec<Var<u8>> = (0..prog.n_vars()).map(|_| state.var(0u8)).collect();
    let base_w = base.watch();
    let underlying = move |k: MKey| {
        let k = k.0;
        let n = base_w.map(move |x| x * 10 + k as u32);
        log(Ev::Call { k, id: n.verif_id(), weak: n.weak() });
        n
    };
    // called at top level: its nodes belong to the top scope
    let mut memo_k = state.weak_memoize_fn(underlying);
    let memo = move |k: u8| memo_k(MKey(k));
    let mut binds = vec![];
    for i in 0..prog.n_binds() {
        let vs = prog.vars_of(i);
        let ix = i as u8;
        if prog.nested && i == 0 {
            let m = memo.clone();
            let inner_var = bvars[vs[1]].watch();
            let b = bvars[vs[0]].bind(move |d0: &u8| {
                let d0 = *d0;
                let mut m2 = m.clone();
                inner_var.bind(move |d1: &u8| {
                    let k = (d0 + *d1) % 2;
                    let n = m2(k);
                    log(Ev::BindRun { bind: ix, k, id: n.verif_id() });
                    n
                })
            });
            binds.push(Some(b));
        } else {
            let mut m = memo.clone();
            let b = bvars[vs[0]].bind(move |d: &u8| {
                let k = *d % 2;
                let n = m(k);
                log(Ev::BindRun { bind: ix, k, id: n.verif_id() });
                n
            });
            binds.push(Some(b));
        }
    }
    Real {
        state,
        base,
        bvars,
        binds,
        memo: Box::new(memo),
        slots: (0..prog.max_slots).map(|_| None).collect(),
        observers: (0..prog.max_obs as usize + prog.n_binds()).map(|_| None).collect(),
    }
}

impl MemoWorld {
    fn note(&mut self, k: &'static str) {
        *self.counters.entry(k).or_insert(0) += 1;
    }
    fn mix(&mut self, s: &str) {
        self.obs_hash = hash64(&(self.obs_hash, s));
    }
    fn real(&self) -> &Real {
        self.real.as_ref().unwrap()
    }

    /// a harness-held reference to the node of key k: (node id, index of a slot holding it)
    fn sure_ref(&self, k: u8) -> Option<(usize, Option<usize>)> {
        let r = self.real();
        for (i, s) in r.slots.iter().enumerate() {
            if let Some(s) = s {
                if s.0 == k {
                    return Some((s.1.verif_id(), Some(i)));
                }
            }
        }
        for o in r.observers.iter().flatten() {
            if let What::Slot { key, node, .. } = o.what {
                if key == k {
                    return Some((node, None));
                }
            }
        }
        None
    }
    fn maybe_ref(&self, k: u8) -> bool {
        self.bind_last_key.iter().any(|x| *x == Some(k)) || self.zombies[k as usize] > 0
    }
    fn sure_dead(&self, k: u8) -> bool {
        self.sure_ref(k).is_none() && !self.maybe_ref(k) && self.clean_stabs[k as usize] >= 1
    }
    fn bind_key(&self, i: usize) -> u8 {
        let vs = self.prog.vars_of(i);
        vs.iter().map(|x| self.bv[*x]).sum::<u8>() % 2
    }
    fn bind_observed(&self, i: u8) -> bool {
        self.real().observers.iter().flatten().any(|o| o.what == What::Bind(i))
    }
    fn free_obs(&self) -> Option<usize> {
        self.real().observers.iter().position(|o| o.is_none())
    }
    fn slot_observers(&self) -> usize {
        self.real().observers.iter().flatten().filter(|o| matches!(o.what, What::Slot { .. })).count()
    }

    fn adopt_call(&mut self, k: u8, id: usize, weak: WeakIncr<u32>, in_bind: bool) {
        self.cache[k as usize] = Some(CacheEnt { id, weak, in_bind });
    }
}

impl World for MemoWorld {
    type Prog = MemoProg;
    type Action = Act;

    fn new(prog: &MemoProg, _cfg: &Cfg) -> Self {
        let _ = take_log();
        let real = catch(|| build(prog)).ok();
        let dead = real.is_none();
        MemoWorld {
            prog: prog.clone(),
            real,
            base: 0,
            bv: vec![0; prog.n_vars()],
            cache: [None, None],
            bind_last_key: vec![None; prog.n_binds()],
            zombies: [0, 0],
            clean_stabs: [0, 0],
            dead,
            obs_hash: 0,
            counters: Counters::new(),
            explain: String::new(),
        }
    }

    fn enabled(&self) -> Vec<Act> {
        let mut out = vec![];
        if self.dead {
            return out;
        }
        let r = self.real();
        out.push(Act::Stabilise);
        if r.slots.iter().any(|s| s.is_none()) {
            out.push(Act::CallTop(0));
            out.push(Act::CallTop(1));
        }
        let free = self.free_obs().is_some();
        for i in 0..self.prog.n_binds() as u8 {
            if free && !self.bind_observed(i) && r.binds[i as usize].is_some() {
                out.push(Act::ObserveBind(i));
            }
        }
        for (i, cur) in self.bv.iter().enumerate() {
            for d in 0..3u8 {
                if d != *cur {
                    out.push(Act::SetBindVar(i as u8, d));
                }
            }
        }
        out.push(Act::SetBase(1 - self.base));
        for (s, slot) in r.slots.iter().enumerate() {
            if slot.is_some() && free && self.slot_observers() < self.prog.max_obs as usize {
                out.push(Act::ObserveSlot(s as u8));
            }
        }
        for (s, slot) in r.slots.iter().enumerate() {
            if slot.is_some() {
                out.push(Act::DropSlot(s as u8));
            }
        }
        for (o, obs) in r.observers.iter().enumerate() {
            if obs.is_some() {
                out.push(Act::DropObserver(o as u8));
            }
        }
        for (i, b) in r.binds.iter().enumerate() {
            if b.is_some() {
                out.push(Act::DropBind(i as u8));
            }
        }
        out
    }

    fn step(&mut self, a: &Act, check: bool) -> Vec<Violation> {
        let mut vs = vec![];
        self.explain.clear();
        let _ = take_log();
        // facts the oracle needs from before the action
        let sure_before: [Option<(usize, Option<usize>)>; 2] = [self.sure_ref(0), self.sure_ref(1)];
        // the observer about to be dropped stays linked in the engine until the next stabilise
        let dropped_key: Option<u8> = match a {
            Act::DropObserver(o) => match self.real().observers[*o as usize].as_ref().map(|o| o.what) {
                Some(What::Slot { key, .. }) => Some(key),
                _ => None,
            },
            _ => None,
        };
        let dead_before = [self.sure_dead(0), self.sure_dead(1)];
        let refs_before = [sure_before[0].is_some() || self.maybe_ref(0), sure_before[1].is_some() || self.maybe_ref(1)];

        let mut returned: Option<Incr<u32>> = None;
        let res = {
            let real = self.real.as_mut().unwrap();
            let returned = &mut returned;
            catch(move || match a {
                Act::Stabilise => real.state.stabilise(),
                Act::CallTop(k) => *returned = Some((real.memo)(*k)),
                Act::ObserveBind(i) => {
                    let ix = real.observers.iter().position(|o| o.is_none()).unwrap();
                    let h = real.binds[*i as usize].as_ref().unwrap().observe();
                    real.observers[ix] = Some(Obs { what: What::Bind(*i), handle: h });
                }
                Act::SetBindVar(i, d) => real.bvars[*i as usize].set(*d),
                Act::SetBase(d) => real.base.set(*d),
                Act::ObserveSlot(_) => {}
                Act::DropSlot(s) => real.slots[*s as usize] = None,
                Act::DropObserver(o) => real.observers[*o as usize] = None,
                Act::DropBind(i) => real.binds[*i as usize] = None,
            })
        };
        let evs = take_log();
        if let Err(p) = res {
            self.dead = true;
            self.explain = format!("PANIC at {}: {}", p.short_location(), p.first_line());
            if check {
                let kind = format!("{a:?}");
                let kind = kind.split('(').next().unwrap_or("").to_string();
                vs.push(v("C20.panic", format!("{kind}@{}", p.short_location()), format!("{a:?} panicked at {}: {}", p.short_location(), p.first_line())));
            }
            return vs;
        }

        match a {
            Act::CallTop(k) => {
                let k = *k;
                let node = returned.take().unwrap();
                let id = node.verif_id();
                let calls: Vec<&Ev> = evs.iter().filter(|e| matches!(e, Ev::Call { k: kk, .. } if *kk == k)).collect();
                let other_calls = evs.iter().filter(|e| matches!(e, Ev::Call { k: kk, .. } if *kk != k)).count();
                self.explain = format!("memo({k}) at top level -> #{id}, underlying function invoked {} time(s)", calls.len());
                if let Some((held_id, held)) = &sure_before[k as usize] {
                    self.note("same_node_judged_top");
                    // `Incr: PartialEq` is pointer identity
                    let same = match held {
                        Some(ix) => self.real().slots[*ix].as_ref().map_or(false, |s| s.1 == node),
                        None => id == *held_id,
                    };
                    if check && !calls.is_empty() {
                        vs.push(v("C20.same_node", "top:invoked_again", format!("memo({k}) at top level while the harness still holds #{held_id} for that key: the underlying function was invoked again")));
                    }
                    if check && !same {
                        vs.push(v("C20.same_node", "top:different_node", format!("memo({k}) at top level returned #{id} while the harness still holds #{held_id} for that key")));
                    }
                } else if dead_before[k as usize] {
                    self.note("recreated_judged_top");
                    if check && calls.len() != 1 {
                        vs.push(v(
                            "C20.recreated",
                            "top:not_invoked",
                            format!("memo({k}) at top level after every reference to the previous node was dropped and a stabilise ran: underlying function invoked {} time(s), expected 1", calls.len()),
                        ));
                    }
                } else {
                    self.note("unjudged_call_top");
                }
                if check && other_calls > 0 {
                    vs.push(v("C20.same_node", "top:other_key_invoked", format!("memo({k}) invoked the underlying function for another key")));
                }
                for e in evs.iter() {
                    if let Ev::Call { k, id, weak } = e {
                        self.adopt_call(*k, *id, weak.clone(), false);
                    }
                }
                self.clean_stabs[k as usize] = 0;
                let real = self.real.as_mut().unwrap();
                let s = real.slots.iter().position(|s| s.is_none()).unwrap();
                real.slots[s] = Some((k, node));
                self.mix(&format!("call {k} {}", calls.len()));
            }
            Act::ObserveSlot(s) => {
                let (key, node) = self.real().slots[*s as usize].clone().unwrap();
                let id = node.verif_id();
                let in_bind = self.cache[key as usize].as_ref().map_or(false, |c| c.id == id && c.in_bind);
                let r = catch(|| node.observe());
                match r {
                    Ok(h) => {
                        let ix = self.free_obs().unwrap();
                        self.real.as_mut().unwrap().observers[ix] = Some(Obs { what: What::Slot { key, node: id, in_bind }, handle: h });
                        self.explain = format!("observe slot {s} (key {key}, #{id}, created inside a bind closure: {in_bind})");
                    }
                    Err(p) => {
                        self.dead = true;
                        self.explain = format!("PANIC at {}: {}", p.short_location(), p.first_line());
                        if check {
                            vs.push(v("C20.panic", format!("ObserveSlot@{}", p.short_location()), format!("{a:?} panicked at {}: {}", p.short_location(), p.first_line())));
                        }
                        return vs;
                    }
                }
            }
            Act::DropObserver(_) => {
                if let Some(k) = dropped_key {
                    self.zombies[k as usize] = self.zombies[k as usize].saturating_add(1).min(3);
                }
            }
            Act::SetBindVar(i, d) => self.bv[*i as usize] = *d,
            Act::SetBase(d) => self.base = *d,
            Act::ObserveBind(_) | Act::DropSlot(_) | Act::DropBind(_) => {}
            Act::Stabilise => {
                // ---- memoised calls made by bind closures, in order
                let mut calls_since: Vec<u8> = vec![];
                let mut touched = [false, false];
                let mut first_for_key = [true, true];
                let mut trace = vec![];
                for e in evs.iter() {
                    match e {
                        Ev::Call { k, id, weak } => {
                            calls_since.push(*k);
                            self.adopt_call(*k, *id, weak.clone(), true);
                            trace.push(format!("f({k})->#{id}"));
                        }
                        Ev::BindRun { bind, k, id } => {
                            let (bind, k, id) = (*bind, *k, *id);
                            trace.push(format!("bind{bind}:memo({k})->#{id}"));
                            touched[k as usize] = true;
                            let invoked = calls_since.iter().filter(|x| **x == k).count();
                            let other = calls_since.len() - invoked;
                            calls_since.clear();
                            if let Some((held_id, _)) = &sure_before[k as usize] {
                                self.note("same_node_judged_bind");
                                if check && invoked > 0 {
                                    vs.push(v("C20.same_node", "bind:invoked_again", format!("bind {bind} called memo({k}) while the harness holds #{held_id} for that key: the underlying function was invoked again")));
                                }
                                if check && id != *held_id {
                                    vs.push(v("C20.same_node", "bind:different_node", format!("bind {bind} got #{id} from memo({k}) while the harness holds #{held_id} for that key")));
                                }
                            } else if dead_before[k as usize] && first_for_key[k as usize] {
                                self.note("recreated_judged_bind");
                                if check && invoked != 1 {
                                    vs.push(v(
                                        "C20.recreated",
                                        "bind:not_invoked",
                                        format!("bind {bind} called memo({k}) after every reference to the previous node was dropped and a stabilise ran: underlying function invoked {invoked} time(s), expected 1"),
                                    ));
                                }
                            } else {
                                self.note("unjudged_call_bind");
                            }
                            if check && other > 0 {
                                vs.push(v("C20.same_node", "bind:other_key_invoked", format!("bind {bind}: memo({k}) invoked the underlying function for another key")));
                            }
                            first_for_key[k as usize] = false;
                            self.bind_last_key[bind as usize] = Some(k);
                        }
                    }
                }
                self.zombies = [0, 0];
                for k in 0..2usize {
                    let refs_after = self.sure_ref(k as u8).is_some() || self.maybe_ref(k as u8);
                    if !refs_before[k] && !refs_after && !touched[k] {
                        self.clean_stabs[k] = (self.clean_stabs[k] + 1).min(2);
                    } else {
                        self.clean_stabs[k] = 0;
                    }
                }
                // ---- observers against from-scratch values
                let reads: Vec<(What, Result<u32, String>)> = match catch(|| self.real().observers.iter().flatten().map(|o| (o.what, o.handle.try_get_value().map_err(|e| format!("{e:?}")))).collect()) {
                    Ok(x) => x,
                    Err(p) => {
                        self.dead = true;
                        if check {
                            vs.push(v("C20.panic", format!("read@{}", p.short_location()), format!("reading an observer panicked: {}", p.first_line())));
                        }
                        return vs;
                    }
                };
                for (what, got) in reads.iter() {
                    match what {
                        What::Slot { key, node, in_bind } => {
                            let want = self.base * 10 + *key as u32;
                            if *in_bind {
                                self.note("scope_judged_node_from_bind_closure");
                                if !self.bind_last_key.iter().any(|x| *x == Some(*key)) {
                                    self.note("scope_judged_after_creating_bind_moved_on");
                                }
                            }
                            match got {
                                Ok(x) if *x == want => {}
                                Ok(x) => {
                                    if check {
                                        vs.push(v("C20.value", "slot", format!("observer of #{node} (memo({key})) reads {x}, from scratch {want}")));
                                    }
                                }
                                Err(e) => {
                                    if check {
                                        let origin = if *in_bind { "created_in_bind" } else { "created_at_top" };
                                        vs.push(v("C20.scope", format!("slot:{e}:{origin}"), format!("observer of #{node} (memo({key}), {origin}) reads Err({e}), from scratch {want}")));
                                    }
                                }
                            }
                        }
                        What::Bind(i) => {
                            let key = self.bind_key(*i as usize);
                            let want = self.base * 10 + key as u32;
                            match got {
                                Ok(x) if *x == want => {}
                                Ok(x) => {
                                    if check {
                                        vs.push(v("C20.value", "bind", format!("observer of bind {i} reads {x}, from scratch {want}")));
                                    }
                                }
                                Err(e) => {
                                    if check {
                                        vs.push(v("C20.scope", format!("bind:{e}"), format!("observer of bind {i} reads Err({e}), from scratch {want}")));
                                    }
                                }
                            }
                        }
                    }
                }
                self.explain = format!("stabilise: [{}]; reads {:?}", trace.join(", "), reads.iter().map(|(w, g)| format!("{w:?}={g:?}")).collect::<Vec<_>>());
                self.mix(&format!("{:?}", reads.iter().map(|(_, g)| g.clone()).collect::<Vec<_>>()));
                self.mix(&trace.len().to_string());
            }
        }
        if !vs.is_empty() {
            self.dead = true;
        }
        vs
    }

    fn canon(&self) -> Option<String> {
        if self.dead {
            return None;
        }
        let r = self.real.as_ref()?;
        let mut s = r.state.verif_dump();
        s.push_str("\n=== harness");
        for (i, slot) in r.slots.iter().enumerate() {
            if let Some((k, n)) = slot {
                s.push_str(&format!(" S{i}=k{k}:#{}", n.verif_id()));
            }
        }
        for (i, o) in r.observers.iter().enumerate() {
            if let Some(o) = o {
                match o.what {
                    What::Slot { key, node, in_bind } => s.push_str(&format!(" W{i}=o{} key{key}:#{node} inbind={in_bind}", o.handle.verif_id())),
                    What::Bind(b) => s.push_str(&format!(" W{i}=o{} bind{b}", o.handle.verif_id())),
                }
            }
        }
        for k in 0..2 {
            match &self.cache[k] {
                Some(c) if c.weak.strong_count() > 0 => s.push_str(&format!(" K{k}=#{} inbind={}", c.id, c.in_bind)),
                Some(_) => s.push_str(&format!(" K{k}=gone")),
                None => s.push_str(&format!(" K{k}=never")),
            }
        }
        let held: Vec<bool> = r.binds.iter().map(|b| b.is_some()).collect();
        s.push_str(&format!(" base={} bv={:?} last={:?} zombies={:?} clean={:?} binds_held={:?}", self.base, self.bv, self.bind_last_key, self.zombies, self.clean_stabs, held));
        Some(canonicalise_dump(&s))
    }

    fn dead(&self) -> bool {
        self.dead
    }
    fn observation_hash(&self) -> u64 {
        self.obs_hash
    }
    fn take_counters(&mut self) -> Counters {
        std::mem::take(&mut self.counters)
    }
    fn teardown(mut self) {
        let real = self.real.take();
        let cache = std::mem::take(&mut self.cache);
        let _ = catch(move || {
            drop(real);
            drop(cache);
        });
        let _ = take_log();
    }

    fn prog_json(p: &MemoProg) -> Json {
        json!({"world": "memo", "binds": p.binds, "nested": p.nested, "max_slots": p.max_slots, "max_obs": p.max_obs})
    }
    fn prog_from_json(j: &Json) -> Option<MemoProg> {
        let u = |k: &str| j.get(k).and_then(|x| x.as_u64()).map(|x| x as u8);
        Some(MemoProg { binds: u("binds")?, nested: j.get("nested")?.as_bool()?, max_slots: u("max_slots")?, max_obs: u("max_obs")? })
    }
    fn action_json(a: &Act) -> Json {
        match a {
            Act::Stabilise => json!({"a": "Stabilise"}),
            Act::CallTop(k) => json!({"a": "CallTop", "k": k}),
            Act::ObserveBind(i) => json!({"a": "ObserveBind", "i": i}),
            Act::SetBindVar(i, d) => json!({"a": "SetBindVar", "i": i, "d": d}),
            Act::SetBase(d) => json!({"a": "SetBase", "d": d}),
            Act::ObserveSlot(s) => json!({"a": "ObserveSlot", "s": s}),
            Act::DropSlot(s) => json!({"a": "DropSlot", "s": s}),
            Act::DropObserver(o) => json!({"a": "DropObserver", "o": o}),
            Act::DropBind(i) => json!({"a": "DropBind", "i": i}),
        }
    }
    fn action_from_json(j: &Json) -> Option<Act> {
        let u = |k: &str| j.get(k).and_then(|x| x.as_u64());
        Some(match j.get("a")?.as_str()? {
            "Stabilise" => Act::Stabilise,
            "CallTop" => Act::CallTop(u("k")? as u8),
            "ObserveBind" => Act::ObserveBind(u("i")? as u8),
            "SetBindVar" => Act::SetBindVar(u("i")? as u8, u("d")? as u8),
            "SetBase" => Act::SetBase(u("d")? as u32),
            "ObserveSlot" => Act::ObserveSlot(u("s")? as u8),
            "DropSlot" => Act::DropSlot(u("s")? as u8),
            "DropObserver" => Act::DropObserver(u("o")? as u8),
            "DropBind" => Act::DropBind(u("i")? as u8),
            _ => return None,
        })
    }
    fn explain_last(&self) -> String {
        self.explain.clone()
    }
}
