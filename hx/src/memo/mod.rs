//! weak_memoize_fn world (C20)
//!
//! `memo = state.weak_memoize_fn(|k: u8| base.map(move |x| x * 10 + k))` is created at top
//! level; the underlying function logs every invocation (key, id and weak handle of the node it
//! made). The harness calls `memo(k)` at top level (keeping the result in a slot) and from
//! inside bind closures (`bv_i.bind(|d| memo(d % 2))`, and the nested
//! `bv_0.bind(|d0| bv_1.bind(|d1| memo((d0 + d1) % 2)))`) by setting the binds' variables
//! (domain {0,1,2}: 0 -> 2 re-runs a closure with the same key), observes returned nodes and
//! binds, drops slots, observers and the binds' own handles, changes `base`, and stabilises.
//! Alphabet: Stabilise, CallTop(k), ObserveBind(i), SetBindVar(i,d), SetBase(d), ObserveSlot(s),
//! DropSlot(s), DropObserver(o), DropBind(i); k in {0,1}.
//!
//! Reference model = who may still reference the node of key k:
//! * surely: a harness slot or an undropped harness observer on it;
//! * maybe: a bind whose closure returned it at its last run (whether or not that bind is still
//!   needed), an observer on it dropped since the last stabilise;
//! * surely not: neither of the above during one *complete* stabilise (so a reference released
//!   in the middle of a stabilise needs one more stabilise before anything is demanded).
//!
//! Rules: `C20.same_node` (key surely referenced: same node, by `Incr ==` / id, and the
//! underlying function not invoked - judged for top-level calls and for calls made by bind
//! closures), `C20.recreated` (surely unreferenced: the function is invoked exactly once),
//! `C20.scope` (an observer held by the harness - on a node first made inside a bind closure, or
//! on a bind - reads `Err`, e.g. ObservingInvalid, after binds re-ran / were un-observed),
//! `C20.value` (wrong value against from-scratch `base*10+k`), `C20.panic`.
//! Calls with "maybe" references are not judged (the model adopts what the engine did).
//!
//! Families (one program each; `hx dev memo <family> <depth> [noprune] [split]`); depth =
//! number of actions. Recommended depths (measured single-core wall, release profile):
//!
//! | family             | setup                               | quick pruned | thorough pruned | E1 `noprune` quick |
//! |--------------------|-------------------------------------|--------------|-----------------|--------------------|
//! | `memo/top`         | no bind, 3 slots, 2 observers       |  9 (2 s)     | 12              | 6 (0.6 s)          |
//! | `memo/bind1`       | 1 bind, 2 slots, 2 observers        |  8 (11 s)    | 9 (84 s)        | 5 (0.8 s)          |
//! | `memo/bind2`       | 2 binds, 2 slots, 1 slot observer   |  6 (6 s)     | 7 (23 s) / 8    | 5 (4.6 s)          |
//! | `memo/nested`      | nested bind, 2 slots, 1 observer    |  7 (7 s)     | 8 (48 s)        | 5 (2.9 s)          |
//! | `memo/nested+bind` | nested + plain bind, 1 slot, 1 obs. |  6 (9 s)     | 7 (62 s)        | 4 (0.4 s)          |
//!
//! The shortest history that judges `C20.scope` on a node made inside a bind closure after that
//! bind moved on has 6 actions (ObserveBind, Stabilise, CallTop, SetBindVar, ObserveSlot,
//! Stabilise), so depths below 6 do not witness that clause (see the `scope_judged_*` counters).
//!
//! The digest (engine dump + slots + observers + mirror of the memo table + model) captures the
//! closures' hidden state: the memo table is mirrored from the underlying function's log (a dead
//! entry and a missing entry behave alike). Use `split` (JobDef::split_first) to shard a
//! family over workers by its first action.
//!
//! Entry points used by `plan.rs` (keep these four signatures).

mod world;

use crate::core::{Cfg, Violation};
use crate::explore::{Marker, Stats};
use crate::plan::{JobDef, Tier};
use serde_json::Value as Json;
use std::time::Instant;
use world::{MemoProg, MemoWorld};

fn progs(job: &JobDef, _tier: Tier) -> Vec<MemoProg> {
    match job.family.as_str() {
        "memo/top" => vec![MemoProg { binds: 0, nested: false, max_slots: 3, max_obs: 2 }],
        "memo/bind1" => vec![MemoProg { binds: 1, nested: false, max_slots: 2, max_obs: 2 }],
        "memo/bind2" => vec![MemoProg { binds: 2, nested: false, max_slots: 2, max_obs: 1 }],
        "memo/nested" => vec![MemoProg { binds: 0, nested: true, max_slots: 2, max_obs: 1 }],
        "memo/nested+bind" => vec![MemoProg { binds: 1, nested: true, max_slots: 1, max_obs: 1 }],
        _ => vec![],
    }
}

pub fn units(job: &JobDef, tier: Tier) -> usize {
    crate::driver::units::<MemoWorld>(&progs(job, tier), job)
}

pub fn run_unit(job: &JobDef, job_ix: u32, unit: usize, tier: Tier, deadline: Option<Instant>, marker: &Marker, stats: &mut Stats) {
    crate::driver::run_unit::<MemoWorld>(&progs(job, tier), job, job_ix, unit, deadline, marker, stats)
}

pub fn replay(cfg: &Cfg, prog: &Json, history: &[Json]) -> Result<(Vec<(usize, Violation)>, Vec<String>, u64), String> {
    crate::driver::replay::<MemoWorld>(cfg, prog, history)
}

pub fn history_from_choices(job: &JobDef, unit: usize, tier: Tier, choices: &[u16]) -> Option<(Json, Vec<Json>)> {
    crate::driver::history_from_choices::<MemoWorld>(&progs(job, tier), job, unit, choices)
}

#[cfg(test)]
mod tests {
    use super::*;
    use crate::core::World;

    #[test]
    fn json_round_trip_and_replay() {
        crate::core::install_panic_hook();
        let cfg = Cfg { profile: crate::core::profile(), handler_order: Some(true), armed: vec![] };
        for fam in ["memo/top", "memo/bind1", "memo/bind2", "memo/nested", "memo/nested+bind"] {
            let job = JobDef::new("memo", fam, crate::core::profile(), 3);
            let p = progs(&job, Tier::Quick).pop().expect("family exists");
            let j = MemoWorld::prog_json(&p);
            let back = MemoWorld::prog_from_json(&j).expect("prog parses");
            assert_eq!(MemoWorld::prog_json(&back), j);
            let mut w = MemoWorld::new(&p, &cfg);
            let mut hist = vec![];
            for i in 0..8 {
                let acts = w.enabled();
                let a = acts[(i * 5 + 1) % acts.len()].clone();
                let aj = MemoWorld::action_json(&a);
                assert_eq!(MemoWorld::action_from_json(&aj), Some(a.clone()));
                hist.push(aj);
                let vs = w.step(&a, true);
                assert!(vs.is_empty(), "{vs:?}");
            }
            w.teardown();
            let (vs, explain, _) = replay(&cfg, &j, &hist).expect("replay works");
            assert!(vs.is_empty());
            assert_eq!(explain.len(), hist.len());
        }
    }
}
