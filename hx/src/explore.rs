//! E1/E2: breadth-first exploration of a `World` by history replay, with optional pruning on
//! the canonical digest of the product state, a one-step congruence self-check of the
//! abstraction, and an on-disk marker naming the history being executed (abort attribution).

use crate::core::*;
use serde_json::{json, Value as Json};
use std::collections::{HashMap, HashSet};
use std::time::Instant;

#[derive(Clone, Debug)]
pub struct Opts {
    pub max_depth: usize,
    /// prune on digest (E2) or not (E1)
    pub prune: bool,
    /// stop expanding when this many states are stored (reported as a cap)
    pub max_states: usize,
    pub deadline: Option<Instant>,
    /// duplicates found at depth <= this are expanded once more and compared with their
    /// representative's successors (DESIGN §5.2 guard ii)
    pub congruence_depth: usize,
}

#[derive(Clone, Debug)]
pub struct Found {
    pub viol: Violation,
    pub prog: Json,
    pub history: Vec<Json>,
    pub explain: String,
    pub occurrences: u64,
}

#[derive(Default, Debug)]
pub struct Stats {
    pub programs: u64,
    pub states: u64,
    pub transitions: u64,
    /// histories executed against the real engine in lock-step with the model
    pub histories: u64,
    pub replay_steps: u64,
    pub pruned: u64,
    pub max_depth_completed: usize,
    pub min_depth_completed: usize,
    /// programs whose frontier emptied before the depth bound
    pub programs_exhausted: u64,
    pub caps: Vec<String>,
    pub congruence_checked: u64,
    pub observation_traces: HashSet<u64>,
    pub counters: Counters,
    pub found: HashMap<String, Found>,
    pub samples: Vec<Json>,
    pub machinery_errors: Vec<String>,
}

impl Stats {
    pub fn new() -> Self {
        Stats {
            min_depth_completed: usize::MAX,
            ..Default::default()
        }
    }
    pub fn merge_counters(&mut self, c: Counters) {
        for (k, v) in c {
            *self.counters.entry(k).or_insert(0) += v;
        }
    }
    fn record<W: World>(&mut self, v: Violation, prog: &W::Prog, hist: &[W::Action], explain: String) {
        match self.found.get_mut(&v.sig) {
            Some(f) => f.occurrences += 1,
            None => {
                self.found.insert(
                    v.sig.clone(),
                    Found {
                        viol: v,
                        prog: W::prog_json(prog),
                        history: hist.iter().map(|a| W::action_json(a)).collect(),
                        explain,
                        occurrences: 1,
                    },
                );
            }
        }
    }
}

/// Where the worker records what it is about to execute, so that an abort (double panic,
/// stack overflow) or hang can be attributed by the supervisor.
pub struct Marker {
    file: Option<std::fs::File>,
    pub progress: std::sync::Arc<std::sync::atomic::AtomicU64>,
    selftest_abort_at: Option<u64>,
}

impl Marker {
    pub fn none() -> Self {
        Marker {
            file: None,
            progress: Default::default(),
            selftest_abort_at: None,
        }
    }
    pub fn open(path: &str) -> Self {
        let file = std::fs::OpenOptions::new()
            .create(true)
            .write(true)
            .truncate(true)
            .open(path)
            .ok();
        Marker {
            file,
            progress: Default::default(),
            selftest_abort_at: std::env::var("HX_SELFTEST_ABORT_AT").ok().and_then(|s| s.parse().ok()),
        }
    }
    #[inline]
    pub fn mark(&self, family: u32, prog: u32, choices: &[u16], last: u16) {
        let n = self
            .progress
            .fetch_add(1, std::sync::atomic::Ordering::Relaxed);
        // machinery self-test: HX_SELFTEST_ABORT_AT=<n> kills the worker right after it has marked its n-th
        // history, as a double panic inside the engine would; the supervisor must attribute it
        if n > 0 && self.selftest_abort_at == Some(n) {
            if let Some(f) = &self.file {
                use std::os::unix::fs::FileExt;
                let mut buf = [0u8; 256];
                buf[0..4].copy_from_slice(&family.to_le_bytes());
                buf[4..8].copy_from_slice(&prog.to_le_bytes());
                let k = (choices.len() + 1).min(120);
                buf[8..10].copy_from_slice(&(k as u16).to_le_bytes());
                for (i, c) in choices.iter().chain(std::iter::once(&last)).take(k).enumerate() {
                    buf[10 + 2 * i..12 + 2 * i].copy_from_slice(&c.to_le_bytes());
                }
                let _ = f.write_at(&buf[..10 + 2 * k], 0);
            }
            std::process::abort();
        }
        if let Some(f) = &self.file {
            use std::os::unix::fs::FileExt;
            let mut buf = [0u8; 256];
            buf[0..4].copy_from_slice(&family.to_le_bytes());
            buf[4..8].copy_from_slice(&prog.to_le_bytes());
            let n = (choices.len() + 1).min(120);
            buf[8..10].copy_from_slice(&(n as u16).to_le_bytes());
            for (i, c) in choices.iter().chain(std::iter::once(&last)).take(n).enumerate() {
                buf[10 + 2 * i..12 + 2 * i].copy_from_slice(&c.to_le_bytes());
            }
            let _ = f.write_at(&buf[..10 + 2 * n], 0);
        }
    }
}

pub fn read_marker(path: &str) -> Option<(u32, u32, Vec<u16>)> {
    let b = std::fs::read(path).ok()?;
    if b.len() < 10 {
        return None;
    }
    let family = u32::from_le_bytes(b[0..4].try_into().ok()?);
    let prog = u32::from_le_bytes(b[4..8].try_into().ok()?);
    let n = u16::from_le_bytes(b[8..10].try_into().ok()?) as usize;
    let mut v = vec![];
    for i in 0..n {
        if 12 + 2 * i > b.len() {
            break;
        }
        v.push(u16::from_le_bytes(b[10 + 2 * i..12 + 2 * i].try_into().ok()?));
    }
    Some((family, prog, v))
}

struct Node<A> {
    hist: Vec<A>,
    choices: Vec<u16>,
}

fn replay<W: World>(prog: &W::Prog, cfg: &Cfg, hist: &[W::Action], stats: &mut Stats) -> W {
    let mut w = W::new(prog, cfg);
    for a in hist {
        let _ = w.step(a, false);
        stats.replay_steps += 1;
    }
    w
}

/// Explore one program. `ids` = (family index, program index) for the marker.
pub fn bfs<W: World>(prog: &W::Prog, cfg: &Cfg, opts: &Opts, ids: (u32, u32), marker: &Marker, stats: &mut Stats) {
    bfs_from::<W>(prog, cfg, opts, ids, None, marker, stats)
}

/// Like `bfs`, optionally restricted to histories whose first action is the `first`-th enabled
/// action of the initial state (used to split one big program over several workers; each split
/// keeps its own visited set).
pub fn bfs_from<W: World>(prog: &W::Prog, cfg: &Cfg, opts: &Opts, ids: (u32, u32), first: Option<u16>, marker: &Marker, stats: &mut Stats) {
    bfs_hook::<W, _>(prog, cfg, opts, ids, first, marker, stats, &mut |_, _, _| {})
}

/// `bfs_from` with a callback invoked after every explored transition with (history including
/// the last action, choice indices, stats): used by fault enumeration (E3) to branch off every
/// explored `stabilise`.
#[allow(clippy::too_many_arguments)]
pub fn bfs_hook<W: World, F: FnMut(&[W::Action], &[u16], &mut Stats)>(
    prog: &W::Prog,
    cfg: &Cfg,
    opts: &Opts,
    ids: (u32, u32),
    first: Option<u16>,
    marker: &Marker,
    stats: &mut Stats,
    hook: &mut F,
) {
    stats.programs += 1;
    let mut seen: HashMap<(u64, u64), u32> = HashMap::new(); // digest -> index into reps (if congruence checking)
    let mut reps: Vec<Vec<W::Action>> = vec![];
    let track_reps = opts.prune && opts.congruence_depth > 0;

    let w0 = W::new(prog, cfg);
    if opts.prune {
        if let Some(c) = w0.canon() {
            seen.insert(hash128(&c), 0);
            if track_reps {
                reps.push(vec![]);
            }
        }
    }
    stats.states += 1;
    w0.teardown();

    let mut frontier: Vec<Node<W::Action>> = vec![Node {
        hist: vec![],
        choices: vec![],
    }];
    let mut depth_done = 0usize;
    let mut capped = false;
    let mut sample_deepest: Option<Vec<W::Action>> = None;

    'outer: for depth in 0..opts.max_depth {
        if frontier.is_empty() {
            break;
        }
        let mut next: Vec<Node<W::Action>> = vec![];
        for node in frontier.iter() {
            if let Some(dl) = opts.deadline {
                if Instant::now() > dl {
                    stats.caps.push(format!("deadline hit at depth {depth}"));
                    capped = true;
                    break 'outer;
                }
            }
            let mut w = Some(replay::<W>(prog, cfg, &node.hist, stats));
            let acts = w.as_ref().unwrap().enabled();
            let nacts = acts.len();
            for (i, a) in acts.iter().enumerate() {
                if depth == 0 {
                    if let Some(f) = first {
                        if f as usize != i {
                            continue;
                        }
                    }
                }
                let mut w2 = if i + 1 == nacts {
                    w.take().unwrap()
                } else {
                    replay::<W>(prog, cfg, &node.hist, stats)
                };
                marker.mark(ids.0, ids.1, &node.choices, i as u16);
                let mut viols = w2.step(a, true);
                also_as_c04(cfg, &mut viols);
                if cfg.armed.contains(&"C11") && !w2.dead() {
                    viols.extend(audit_violations(w2.audit()));
                }
                stats.transitions += 1;
                stats.histories += 1;
                stats.merge_counters(w2.take_counters());
                if !viols.is_empty() {
                    let mut h = node.hist.clone();
                    h.push(a.clone());
                    let explain = w2.explain_last();
                    for v in viols {
                        stats.record::<W>(v, prog, &h, explain.clone());
                    }
                }
                stats.observation_traces.insert(w2.observation_hash());
                {
                    let mut h = node.hist.clone();
                    h.push(a.clone());
                    let mut c = node.choices.clone();
                    c.push(i as u16);
                    hook(&h, &c, stats);
                }
                if w2.dead() {
                    w2.teardown();
                    continue;
                }
                let mut keep = true;
                if opts.prune {
                    if let Some(c) = w2.canon() {
                        let d = hash128(&c);
                        match seen.get(&d) {
                            Some(rep_ix) => {
                                keep = false;
                                stats.pruned += 1;
                                if track_reps && depth + 1 <= opts.congruence_depth {
                                    let rep = reps[*rep_ix as usize].clone();
                                    let mut h = node.hist.clone();
                                    h.push(a.clone());
                                    congruence::<W>(prog, cfg, &rep, &h, stats);
                                }
                            }
                            None => {
                                let ix = reps.len() as u32;
                                seen.insert(d, ix);
                                if track_reps {
                                    let mut h = node.hist.clone();
                                    h.push(a.clone());
                                    reps.push(h);
                                }
                            }
                        }
                    }
                }
                w2.teardown();
                if keep {
                    stats.states += 1;
                    let mut h = node.hist.clone();
                    h.push(a.clone());
                    let mut c = node.choices.clone();
                    c.push(i as u16);
                    if sample_deepest.as_ref().map_or(true, |s| s.len() < h.len()) {
                        sample_deepest = Some(h.clone());
                    }
                    next.push(Node { hist: h, choices: c });
                    if seen.len().max(next.len()) > opts.max_states {
                        stats.caps.push(format!("state cap {} hit at depth {}", opts.max_states, depth + 1));
                        capped = true;
                        break 'outer;
                    }
                }
            }
            if let Some(w) = w.take() {
                w.teardown();
            }
        }
        frontier = next;
        depth_done = depth + 1;
    }
    if !capped && frontier.is_empty() {
        stats.programs_exhausted += 1;
    }
    stats.max_depth_completed = stats.max_depth_completed.max(depth_done);
    stats.min_depth_completed = stats.min_depth_completed.min(depth_done);
    if stats.samples.len() < 3 {
        if let Some(h) = sample_deepest {
            stats.samples.push(json!({
                "program": W::prog_json(prog),
                "history": h.iter().map(|a| W::action_json(a)).collect::<Vec<_>>(),
            }));
        }
    }
}

/// One-step congruence: `dup` was merged into `rep` (equal digests). Their successors under
/// every enabled action must have equal digests and equal oracle verdicts.
fn congruence<W: World>(prog: &W::Prog, cfg: &Cfg, rep: &[W::Action], dup: &[W::Action], stats: &mut Stats) {
    stats.congruence_checked += 1;
    let wr = replay::<W>(prog, cfg, rep, stats);
    let wd = replay::<W>(prog, cfg, dup, stats);
    let ar = wr.enabled();
    let ad = wd.enabled();
    wr.teardown();
    wd.teardown();
    if ar.len() != ad.len() {
        stats.machinery_errors.push(format!(
            "congruence: merged states enable different action sets: rep={rep:?} dup={dup:?}"
        ));
        return;
    }
    for (x, y) in ar.iter().zip(ad.iter()) {
        let mut w1 = replay::<W>(prog, cfg, rep, stats);
        let mut w2 = replay::<W>(prog, cfg, dup, stats);
        let v1 = w1.step(x, true);
        let v2 = w2.step(y, true);
        let c1 = if w1.dead() { None } else { w1.canon() };
        let c2 = if w2.dead() { None } else { w2.canon() };
        let s1: Vec<&String> = v1.iter().map(|v| &v.sig).collect();
        let s2: Vec<&String> = v2.iter().map(|v| &v.sig).collect();
        if c1 != c2 || s1 != s2 {
            stats.machinery_errors.push(format!(
                "congruence: successors of merged states differ under {x:?}/{y:?}: rep={rep:?} dup={dup:?} verdicts {s1:?} vs {s2:?}\n--- rep successor\n{}\n--- dup successor\n{}",
                c1.unwrap_or_default(),
                c2.unwrap_or_default()
            ));
        }
        w1.teardown();
        w2.teardown();
    }
}

/// Execute one given history with checks on every step; returns violations per step and the
/// per-step explanation (used by `replay` and by fault enumeration).
pub fn run_history<W: World>(prog: &W::Prog, cfg: &Cfg, hist: &[W::Action]) -> (Vec<(usize, Violation)>, Vec<String>, u64) {
    let mut w = W::new(prog, cfg);
    let mut out = vec![];
    let mut explain = vec![];
    for (i, a) in hist.iter().enumerate() {
        let mut vs = w.step(a, true);
        also_as_c04(cfg, &mut vs);
        if cfg.armed.contains(&"C11") && !w.dead() {
            vs.extend(audit_violations(w.audit()));
        }
        explain.push(w.explain_last());
        for v in vs {
            out.push((i, v));
        }
        if w.dead() {
            break;
        }
    }
    let oh = w.observation_hash();
    w.teardown();
    (out, explain, oh)
}
