//! Shared vocabulary of all worlds: violations, the `World` trait (real engine + reference
//! model stepped in lock-step), panic capture, digests.

use serde_json::{json, Value as Json};
use std::cell::RefCell;
use std::collections::BTreeMap;
use std::hash::{Hash, Hasher};
use std::panic::{self, AssertUnwindSafe};

#[derive(Clone, Debug)]
pub struct Violation {
    pub property: &'static str,
    /// oracle rule id, e.g. "C02.once"
    pub rule: &'static str,
    /// cause signature used to match known findings (rule + node kind / panic location ...)
    pub sig: String,
    pub detail: String,
}

impl Violation {
    pub fn new(property: &'static str, rule: &'static str, sig: impl Into<String>, detail: impl Into<String>) -> Self {
        Violation {
            property,
            rule,
            sig: format!("{rule}:{}", sig.into()),
            detail: detail.into(),
        }
    }
    pub fn to_json(&self) -> Json {
        json!({"property": self.property, "rule": self.rule, "sig": self.sig, "detail": self.detail})
    }
}

#[derive(Clone, Debug)]
pub struct Cfg {
    /// "rel" (debug assertions off) or "dbg" (on)
    pub profile: &'static str,
    /// H2 handler order: Some(true)=ascending ids, Some(false)=descending
    pub handler_order: Option<bool>,
    /// properties whose monitors are armed (empty = all)
    pub armed: Vec<&'static str>,
}

impl Cfg {
    pub fn is_armed(&self, p: &str) -> bool {
        self.armed.is_empty() || self.armed.iter().any(|a| *a == p)
    }
}

pub fn profile() -> &'static str {
    if cfg!(debug_assertions) {
        "dbg"
    } else {
        "rel"
    }
}

pub type Counters = BTreeMap<&'static str, u64>;

pub trait World: Sized {
    type Prog: Clone;
    type Action: Clone + std::fmt::Debug;

    fn new(prog: &Self::Prog, cfg: &Cfg) -> Self;
    /// actions enabled in the current state, simplest first
    fn enabled(&self) -> Vec<Self::Action>;
    /// Execute on the real engine and on the reference model. When `check` is false the
    /// oracles are not evaluated (prefix replay); the models still advance.
    fn step(&mut self, a: &Self::Action, check: bool) -> Vec<Violation>;
    /// canonical text of the product state (engine dump + harness + reference model);
    /// `None` = this world cannot be abstracted (no pruning: E1).
    fn canon(&self) -> Option<String>;
    /// the world cannot continue (a panic poisoned it): do not expand successors
    fn dead(&self) -> bool {
        false
    }
    /// hash of everything observed so far along this history (values, errors, notifications)
    fn observation_hash(&self) -> u64;
    /// witness counters of the last step (merged by the explorer)
    fn take_counters(&mut self) -> Counters {
        Counters::new()
    }
    /// called when the world is dropped by the explorer; must not panic
    fn teardown(self) {}

    fn prog_json(p: &Self::Prog) -> Json;
    fn prog_from_json(j: &Json) -> Option<Self::Prog>;
    fn action_json(a: &Self::Action) -> Json;
    fn action_from_json(j: &Json) -> Option<Self::Action>;
    /// human-readable trace of the last step, for replay output
    fn explain_last(&self) -> String {
        String::new()
    }
    /// findings of the engine's bookkeeping audit (hook H1) in the current state; worlds other
    /// than the graph world expose it here so that C11 can be judged on their histories too
    fn audit(&self) -> Vec<String> {
        vec![]
    }
}

/// C11 verdicts from audit findings: only rules restating a clause of the property decide
/// (prefix `R`), the others are diagnostics (DESIGN Appendix B).
pub fn audit_violations(findings: Vec<String>) -> Vec<Violation> {
    findings
        .into_iter()
        .filter(|f| f.starts_with('R'))
        .map(|f| {
            let rule: String = f.split(':').next().unwrap_or("").to_string();
            let pat: String = f.chars().filter(|c| !c.is_ascii_digit()).take(60).collect();
            Violation::new("C11", "C11.audit", format!("{rule}:{pat}"), f)
        })
        .collect()
}

// ---------------------------------------------------------------------------------------
// panic capture

#[derive(Clone, Debug, Default)]
pub struct PanicInfo {
    pub message: String,
    pub location: String,
}

thread_local! {
    static LAST_PANIC: RefCell<Option<PanicInfo>> = RefCell::new(None);
}

pub fn install_panic_hook() {
    panic::set_hook(Box::new(|info| {
        let message = if let Some(s) = info.payload().downcast_ref::<&str>() {
            s.to_string()
        } else if let Some(s) = info.payload().downcast_ref::<String>() {
            s.clone()
        } else {
            "<non-string panic payload>".to_string()
        };
        let location = info
            .location()
            .map(|l| format!("{}:{}", l.file(), l.line()))
            .unwrap_or_default();
        LAST_PANIC.with(|p| *p.borrow_mut() = Some(PanicInfo { message, location }));
    }));
}

/// Run `f`, turning a panic into `Err(info)`.
pub fn catch<T>(f: impl FnOnce() -> T) -> Result<T, PanicInfo> {
    LAST_PANIC.with(|p| p.borrow_mut().take());
    match panic::catch_unwind(AssertUnwindSafe(f)) {
        Ok(v) => Ok(v),
        Err(_) => Err(LAST_PANIC
            .with(|p| p.borrow_mut().take())
            .unwrap_or_default()),
    }
}

impl PanicInfo {
    /// location with the repository prefix removed, for stable signatures
    pub fn short_location(&self) -> String {
        let l = &self.location;
        let l = l.strip_prefix("/repo/").unwrap_or(l);
        l.to_string()
    }
    pub fn first_line(&self) -> String {
        self.message.lines().next().unwrap_or("").chars().take(160).collect()
    }
}

// ---------------------------------------------------------------------------------------
// digests

pub fn hash128(s: &str) -> (u64, u64) {
    let mut h1 = std::collections::hash_map::DefaultHasher::new();
    0xA5u8.hash(&mut h1);
    s.hash(&mut h1);
    let mut h2 = std::collections::hash_map::DefaultHasher::new();
    0x5Au8.hash(&mut h2);
    s.len().hash(&mut h2);
    s.hash(&mut h2);
    0x77u8.hash(&mut h2);
    (h1.finish(), h2.finish())
}

pub fn hash64<T: Hash>(t: &T) -> u64 {
    let mut h = std::collections::hash_map::DefaultHasher::new();
    t.hash(&mut h);
    h.finish()
}

/// Canonicalise an engine dump (hook H1): node ids `#n` -> rank in creation order, observer ids
/// `o<n>` -> rank, timestamps `@n` -> rank among the timestamps present (`@-1` stays `@N`).
/// Correctness argument: DESIGN §5.2.
pub fn canonicalise_dump(dump: &str) -> String {
    let bytes = dump.as_bytes();
    // pass 1: collect
    let mut node_ids: Vec<u64> = vec![];
    let mut obs_ids: Vec<u64> = vec![];
    let mut stamps: Vec<i64> = vec![];
    let mut i = 0;
    while i < bytes.len() {
        let c = bytes[i];
        if c == b'#' || c == b'@' || (c == b'o' && (i == 0 || !bytes[i - 1].is_ascii_alphanumeric()) ) {
            let mut j = i + 1;
            let neg = j < bytes.len() && bytes[j] == b'-' && c == b'@';
            if neg {
                j += 1;
            }
            let start = j;
            while j < bytes.len() && bytes[j].is_ascii_digit() {
                j += 1;
            }
            if j > start {
                let n: i64 = dump[start..j].parse().unwrap_or(0);
                match c {
                    b'#' => node_ids.push(n as u64),
                    b'o' => obs_ids.push(n as u64),
                    _ => stamps.push(if neg { -n } else { n }),
                }
                i = j;
                continue;
            }
        }
        i += 1;
    }
    node_ids.sort_unstable();
    node_ids.dedup();
    obs_ids.sort_unstable();
    obs_ids.dedup();
    stamps.sort_unstable();
    stamps.dedup();
    stamps.retain(|s| *s >= 0);
    // pass 2: rewrite
    let mut out = String::with_capacity(dump.len());
    let mut i = 0;
    while i < bytes.len() {
        let c = bytes[i];
        if c == b'#' || c == b'@' || (c == b'o' && (i == 0 || !bytes[i - 1].is_ascii_alphanumeric())) {
            let mut j = i + 1;
            let neg = j < bytes.len() && bytes[j] == b'-' && c == b'@';
            if neg {
                j += 1;
            }
            let start = j;
            while j < bytes.len() && bytes[j].is_ascii_digit() {
                j += 1;
            }
            if j > start {
                let n: i64 = dump[start..j].parse().unwrap_or(0);
                out.push(c as char);
                match c {
                    b'#' => out.push_str(&node_ids.binary_search(&(n as u64)).unwrap().to_string()),
                    b'o' => out.push_str(&obs_ids.binary_search(&(n as u64)).unwrap().to_string()),
                    _ => {
                        if neg {
                            out.push('N');
                        } else {
                            out.push_str(&stamps.binary_search(&n).unwrap().to_string());
                        }
                    }
                }
                i = j;
                continue;
            }
        }
        out.push(c as char);
        i += 1;
    }
    out
}

#[cfg(test)]
mod tests {
    use super::*;
    #[test]
    fn canon() {
        let a = canonicalise_dump("STATE now=@7 x\n#12 rec=@5 chg=@-1 parents=[#40,] obs=[o9 st=InUse]\n#40 rec=@7 nouh=0\n");
        let b = canonicalise_dump("STATE now=@3 x\n#2 rec=@1 chg=@-1 parents=[#5,] obs=[o1 st=InUse]\n#5 rec=@3 nouh=0\n");
        assert_eq!(a, b);
        assert!(a.contains("nouh=0"));
    }
}


/// C04 ("well-formed programs never panic") quantifies over every world, not only the graph world: a panic that a
/// world files under its own property (`C08.panic`, `C12.panic`, `C14.panic`, `C16.panic`, `C15.panic`, `C20.panic`) in a
/// history that keeps to the documented usage rules is filed under C04 as well when C04 is armed (after seed C04-f,
/// whose panic only the variable world could reach). The limits world is never run with C04 armed (it breaks the rules on
/// purpose).
pub fn also_as_c04(cfg: &Cfg, vs: &mut Vec<Violation>) {
    if !cfg.armed.contains(&"C04") {
        return;
    }
    let extra: Vec<Violation> = vs
        .iter()
        .filter(|v| v.property != "C04" && v.property != "MACHINERY" && v.rule.ends_with(".panic"))
        .map(|v| Violation::new("C04", "C04.panic", format!("{}:{}", v.property, v.sig), v.detail.clone()))
        .collect();
    let mut seen: Vec<String> = vs.iter().filter(|v| v.property == "C04").map(|v| v.sig.clone()).collect();
    for e in extra {
        if !seen.contains(&e.sig) {
            seen.push(e.sig.clone());
            vs.push(e);
        }
    }
}
