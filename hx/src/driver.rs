//! Generic glue between `plan::JobDef` and a `World`: unit counting, unit execution (BFS),
//! replay of recorded histories, reconstruction of a history from an abort marker.

use crate::core::*;
use crate::explore::*;
use crate::plan::JobDef;
use serde_json::Value as Json;
use std::time::Instant;

fn root_actions<W: World>(p: &W::Prog, cfg: &Cfg) -> usize {
    let w = W::new(p, cfg);
    let n = w.enabled().len();
    w.teardown();
    n
}

/// (program index, forced first action) of a unit
fn locate<W: World>(progs: &[W::Prog], job: &JobDef, unit: usize) -> Option<(usize, Option<u16>)> {
    if !job.split_first {
        return if unit < progs.len() { Some((unit, None)) } else { None };
    }
    let cfg = job.cfg();
    let mut u = unit;
    for (i, p) in progs.iter().enumerate() {
        let n = root_actions::<W>(p, &cfg);
        if u < n {
            return Some((i, Some(u as u16)));
        }
        u -= n;
    }
    None
}

pub fn units<W: World>(progs: &[W::Prog], job: &JobDef) -> usize {
    if !job.split_first {
        return progs.len();
    }
    let cfg = job.cfg();
    progs.iter().map(|p| root_actions::<W>(p, &cfg)).sum()
}

pub fn run_unit<W: World>(progs: &[W::Prog], job: &JobDef, job_ix: u32, unit: usize, deadline: Option<Instant>, marker: &Marker, stats: &mut Stats) {
    let Some((pi, first)) = locate::<W>(progs, job, unit) else {
        stats.machinery_errors.push(format!("unit {unit} out of range for {}", job.family));
        return;
    };
    bfs_from::<W>(&progs[pi], &job.cfg(), &job.opts(deadline), (job_ix, unit as u32), first, marker, stats);
}

pub fn replay<W: World>(cfg: &Cfg, prog: &Json, history: &[Json]) -> Result<(Vec<(usize, Violation)>, Vec<String>, u64), String> {
    let p = W::prog_from_json(prog).ok_or("cannot parse program")?;
    let h: Vec<W::Action> = history
        .iter()
        .map(|a| W::action_from_json(a).ok_or_else(|| format!("cannot parse action {a}")))
        .collect::<Result<_, _>>()?;
    Ok(run_history::<W>(&p, cfg, &h))
}

pub fn history_from_choices<W: World>(progs: &[W::Prog], job: &JobDef, unit: usize, choices: &[u16]) -> Option<(Json, Vec<Json>)> {
    let (pi, _) = locate::<W>(progs, job, unit)?;
    let cfg = job.cfg();
    let p = &progs[pi];
    let mut w = W::new(p, &cfg);
    let mut hist = vec![];
    for (i, c) in choices.iter().enumerate() {
        let acts = w.enabled();
        let a = acts.get(*c as usize)?.clone();
        hist.push(W::action_json(&a));
        if i + 1 < choices.len() {
            // the last action is the one that killed the worker: do not execute it here
            let _ = w.step(&a, false);
        }
    }
    std::mem::forget(w);
    Some((W::prog_json(p), hist))
}
