//! variable write world (C08)
//!
//! Scenario (details and the reference model R4 in `world.rs`): a target variable `T: i32`,
//! a trigger variable `G`, a reader of `T` below the writer's height (`low`, height 1), a
//! reader above it (`high`, `T.map2(writer, ..)`, height 3+), observers on both readers (from
//! the start, or created later by the action `ObserveReaders` = "unobserved variable"), and a
//! scripted writer that runs a fixed *script* (sequence of write operations) on `T`.
//!
//! Actions: `Stabilise`, `Trigger` (fire the writer at the next stabilise), `OutsideWrite(op)`,
//! `ObserveReaders`, `Flip` (site `dropped` only), `StabiliseUntilStable`
//! (`while !is_stable() { stabilise() }`, cap 10).  `T.get()` and `is_stable()` are read after
//! every action, so there is no separate read action.
//!
//! Families (`hx dev vars <family> <depth> [noprune]`); one unit = one program:
//!
//! | family          | programs | what                                                              | depth quick (rel / dbg) | thorough |
//! |-----------------|---------:|-------------------------------------------------------------------|-------------------------|----------|
//! | `c08/outside`   |        2 | no scripted writer, all 5 top-level ops; T observed / unobserved  | 8 / 8                   | `-full` 8 |
//! | `c08/node`      |      620 | 155 scripts x {map fn, bind closure} x {observed, unobserved}     | 6 / 5                   | 7 (dbg 6) + `-full` 5 |
//! | `c08/handler`   |      620 | 155 scripts x {handler, map fn + handler on it} x {obs, unobs}    | 6 / 5                   | 7 (dbg 6) + `-full` 5 |
//! | `c08/selffeed`  |      310 | 155 scripts x writer that reads T (`if t < 4 { script }`)         | 6 / 5                   | 8 (dbg 6) + `-full` 5 |
//! | `c08/dropped`   |      310 | 155 scripts x writer owning the only Var handle, freed by a bind  | 7 / 6                   | 8 (dbg 7) + `-full` 6 |
//! | `<family>-full` |   x 5.2  | 804 scripts (5 symbols, length <= 4; 7 symbols, length <= 2), all five top-level ops (`c08/outside-full`: 7 top-level ops) | - | see above |
//!
//! Measured single-core (`hx dev`, machine under load): rel `c08/node 6` 1.0e6 transitions
//! 35 s; `c08/handler 6` 1.03e6 / 26 s; `c08/selffeed 6` 1.6e5 / 6 s; `c08/dropped 7` 7.8e5 /
//! 25 s; `c08/outside 8` 1.7e4 / 0.5 s; dbg `node 5` 4.6e5 / 14 s, `handler 5` 4.7e5 / 13 s,
//! `selffeed 5` 9.7e4 / 4 s, `dropped 6` 3.5e5 / 17 s  (quick total ~150 core-s).  Thorough:
//! `node-full 5` 8.4e6 / 237 s, `handler-full 5` 8.5e6 / 238 s, `selffeed-full 5` 2.6e6 / 63 s,
//! `dropped-full 6` 1.8e6 / 60 s, `node 7` 2.0e6 / 56 s, `dropped 8` 1.6e6 / 61 s.
//!
//! 155 scripts = all sequences of length 1..=3 over {set 5, update +1, modify +1, replace 6,
//! replace_with(|x| {*x += 1; *x + 10})}.  Script families use the two top-level symbols
//! {set 5, update} (the top-level alphabet is exercised in full by `c08/outside`).
//!
//! The `tier` argument is ignored: the family *name* selects the size (as in the graph world,
//! `hx dev` always passes `Tier::Quick`).  Pruning is sound here (closures hold no hidden
//! state except the one-shot slot of site `dropped`, which the model text records), `noprune`
//! gives plain E1.

pub mod world;

use crate::core::{Cfg, Violation};
use crate::explore::{Marker, Stats};
use crate::plan::{JobDef, Tier};
use serde_json::Value as Json;
use std::cell::RefCell;
use std::collections::HashMap;
use std::rc::Rc;
use std::time::Instant;
use world::{Prog, VarsWorld};

thread_local! {
    static CACHE: RefCell<HashMap<String, Rc<Vec<Prog>>>> = RefCell::new(HashMap::new());
}

fn progs(job: &JobDef) -> Rc<Vec<Prog>> {
    if let Some(p) = CACHE.with(|c| c.borrow().get(&job.family).cloned()) {
        return p;
    }
    let p = Rc::new(world::family(&job.family));
    CACHE.with(|c| c.borrow_mut().insert(job.family.clone(), p.clone()));
    p
}

pub fn units(job: &JobDef, _tier: Tier) -> usize {
    crate::driver::units::<VarsWorld>(&progs(job), job)
}

pub fn run_unit(job: &JobDef, job_ix: u32, unit: usize, _tier: Tier, deadline: Option<Instant>, marker: &Marker, stats: &mut Stats) {
    let p = progs(job);
    if p.is_empty() {
        stats.machinery_errors.push(format!("vars: unknown family {}", job.family));
        return;
    }
    crate::driver::run_unit::<VarsWorld>(&p, job, job_ix, unit, deadline, marker, stats)
}

pub fn replay(cfg: &Cfg, prog: &Json, history: &[Json]) -> Result<(Vec<(usize, Violation)>, Vec<String>, u64), String> {
    crate::driver::replay::<VarsWorld>(cfg, prog, history)
}

pub fn history_from_choices(job: &JobDef, unit: usize, _tier: Tier, choices: &[u16]) -> Option<(Json, Vec<Json>)> {
    crate::driver::history_from_choices::<VarsWorld>(&progs(job), job, unit, choices)
}
