//! The C08 world: one target variable `T` (i32) written by scripted writers at three kinds of
//! sites (outside stabilise, inside node functions, inside update handlers), readers of `T`
//! below and above the writer's height, and the reference model R4.
//!
//! R4 (variable model) is deliberately tiny: the *logical value* of `T`.  A round
//! (`stabilise`) is judged like this:
//!
//! * `pre` := logical value when the round starts.  Every reader node that runs in the round
//!   must have seen exactly `pre` (rule `C08.reader_saw_new`), and after the round every
//!   observer of a reader shows `pre` (`C08.compose`: "the written value is what the next
//!   stabilise propagates" / outside writes "are seen by the graph at the next stabilise").
//! * the writer invocations of the round are taken from the event log **in observed order**
//!   (the model does not predict *whether* a writer runs -- that is C05/C06's business);
//!   their scripts are composed, in program order, starting from `pre`; the result is the
//!   logical value after the round (`C08.compose` via `get()` right after the round).
//! * `is_stable()` must be false after a round in which a writer ran if `T` is necessary
//!   (`C08.is_stable`).
//!
//! Slack (rule 1 of WORLDS.md), see also the report of this module's author:
//! * what `get()` / `replace()` return *inside a node function* is not stated by the property:
//!   logged and counted (`node_*` witness counters), never judged;
//! * "`is_stable()` is true after a quiet round" is not stated; only the bounded loop
//!   `while !is_stable() { stabilise() }` must end (`C08.no_fixpoint`, cap 10 rounds -- the
//!   longest legitimate loop of this world needs 6); a quiet-but-unstable round is a witness
//!   counter only;
//! * whether reader nodes *re-run* in a round is not judged, only what they saw if they ran;
//! * a deferred write whose variable lost its last handle in the same stabilise may be
//!   applied or dropped (`C08.dropped_var` accepts both, but all readers must agree).

use crate::core::*;
use incremental::{Incr, IncrState, Observer, Update, Var};
use serde_json::{json, Value as Json};
use std::any::Any;
use std::cell::{Cell, RefCell};
use std::rc::Rc;

/// loop cap of `StabiliseUntilStable`
pub const LOOP_CAP: usize = 10;
/// the self-feeding writer stops writing once it reads a value >= this
pub const FEED_LIMIT: i32 = 4;

// ---------------------------------------------------------------------------------------
// write operations

#[derive(Clone, Copy, Debug, PartialEq, Eq, Hash)]
pub enum Op {
    Set(i32),
    Update,
    Modify,
    Replace(i32),
    ReplaceWith,
}

impl Op {
    pub fn name(self) -> String {
        match self {
            Op::Set(c) => format!("set{c}"),
            Op::Update => "update".into(),
            Op::Modify => "modify".into(),
            Op::Replace(c) => format!("replace{c}"),
            Op::ReplaceWith => "replace_with".into(),
        }
    }
    pub fn kind(self) -> &'static str {
        match self {
            Op::Set(_) => "set",
            Op::Update => "update",
            Op::Modify => "modify",
            Op::Replace(_) => "replace",
            Op::ReplaceWith => "replace_with",
        }
    }
    pub fn parse(s: &str) -> Option<Op> {
        if let Some(c) = s.strip_prefix("set") {
            return c.parse().ok().map(Op::Set);
        }
        if s == "replace_with" {
            return Some(Op::ReplaceWith);
        }
        if let Some(c) = s.strip_prefix("replace") {
            return c.parse().ok().map(Op::Replace);
        }
        match s {
            "update" => Some(Op::Update),
            "modify" => Some(Op::Modify),
            _ => None,
        }
    }
    /// R4: effect on the value it composes onto, and the value the operation returns
    /// (`replace`: the old value; `replace_with`: the old value *with the modifications the
    /// closure made to it*, as documented on `Var::replace_with`).
    pub fn apply(self, x: i32) -> (i32, Option<i32>) {
        match self {
            Op::Set(c) => (c, None),
            Op::Update => (x + 1, None),
            Op::Modify => (x + 1, None),
            Op::Replace(c) => (c, Some(x)),
            // closure: |x| { *x += 1; *x + 10 }
            Op::ReplaceWith => (x + 11, Some(x + 1)),
        }
    }
    /// the same operation on the real variable
    pub fn run(self, v: &Var<i32>) -> Option<i32> {
        match self {
            Op::Set(c) => {
                v.set(c);
                None
            }
            Op::Update => {
                v.update(|x| x + 1);
                None
            }
            Op::Modify => {
                v.modify(|x| *x += 1);
                None
            }
            Op::Replace(c) => Some(v.replace(c)),
            Op::ReplaceWith => Some(v.replace_with(|x| {
                *x += 1;
                *x + 10
            })),
        }
    }
}

#[derive(Clone, Copy, Debug, PartialEq, Eq, Hash)]
pub enum Site {
    /// no scripted writer: only top-level writes
    Outside,
    /// writer = function of a `map` node at height 2
    MapFn,
    /// writer = closure of a `bind` node
    BindFn,
    /// writer = subscription callback (status RunningOnUpdateHandlers)
    Handler,
    /// a `map` writer and a handler subscribed to that same node, both running the script
    MapAndHandler,
    /// writer = `T.map(|t| if t < FEED_LIMIT { script })`: reads the variable it writes
    SelfFeed,
    /// `map` writer that owns the *only* `Var` handle and is itself owned only by a bind's
    /// right-hand side; `Flip` makes the bind drop it -- in the same stabilise in which it
    /// wrote, if `Trigger` was issued too
    Dropped,
    /// `map` writer at height 2 (as `MapFn`); above it a bind `writer.bind(|x| if x is odd { T.map(reader "late") } else
    /// { constant })`, observed from the start: with the readers `low` / `high` unobserved, `T` is *unwatched* when the
    /// writer writes it and becomes watched later in the same stabilise, by a reader that runs in that stabilise and
    /// must still see the pre-stabilise value (after seed C08-f)
    LateReader,
}

impl Site {
    pub const ALL: [Site; 8] = [Site::Outside, Site::MapFn, Site::BindFn, Site::Handler, Site::MapAndHandler, Site::SelfFeed, Site::Dropped, Site::LateReader];
    pub fn name(self) -> &'static str {
        match self {
            Site::Outside => "outside",
            Site::MapFn => "map_fn",
            Site::BindFn => "bind_fn",
            Site::Handler => "handler",
            Site::MapAndHandler => "map_and_handler",
            Site::SelfFeed => "self_feed",
            Site::Dropped => "dropped",
            Site::LateReader => "late_reader",
        }
    }
    pub fn parse(s: &str) -> Option<Site> {
        Site::ALL.iter().copied().find(|x| x.name() == s)
    }
}

#[derive(Clone, Debug)]
pub struct Prog {
    pub site: Site,
    pub script: Vec<Op>,
    /// readers of T are observed from the start (else: action `ObserveReaders`)
    pub observed: bool,
    /// alphabet of top-level writes
    pub outside: Vec<Op>,
    /// T's node carries `Cutoff::Never`: every write, also of an equal value and also a deferred one, must make
    /// the readers needed by a live observer run again at the next stabilise (C06; added after seed C06-c)
    pub never: bool,
}

#[derive(Clone, Debug, PartialEq)]
pub enum Act {
    Stabilise,
    /// change the trigger variable so that the scripted writer fires at the next stabilise
    Trigger,
    OutsideWrite(Op),
    ObserveReaders,
    /// (site Dropped) make the bind drop the writer at the next stabilise
    Flip,
    /// `while !is_stable() { stabilise() }`, at most LOOP_CAP rounds
    StabiliseUntilStable,
}

// ---------------------------------------------------------------------------------------
// event log

#[derive(Clone, Debug, PartialEq, Hash)]
pub enum Ev {
    Reader { who: &'static str, saw: i32 },
    Writer { in_handler: bool, before: i32, rets: Vec<Option<i32>>, after: i32 },
}

type Log = Rc<RefCell<Vec<Ev>>>;

struct DropFlag(Rc<Cell<bool>>);
impl Drop for DropFlag {
    fn drop(&mut self) {
        self.0.set(true);
    }
}

fn run_script(t: &Var<i32>, script: &[Op], in_handler: bool, log: &Log) {
    let before = t.get();
    let rets: Vec<Option<i32>> = script.iter().map(|op| op.run(t)).collect();
    let after = t.get();
    log.borrow_mut().push(Ev::Writer { in_handler, before, rets, after });
}

// ---------------------------------------------------------------------------------------
// reference model R4 (+ harness facts)

#[derive(Clone, Debug)]
struct Model {
    /// logical value of T
    logical: i32,
    /// site Dropped: the other admissible content (deferred write dropped with its variable)
    alt: Option<i32>,
    g: i32,
    s: i32,
    /// readers have observers
    observed: bool,
    /// the writer closure has been freed (site Dropped)
    writer_freed: bool,
    /// (`never` programs) T was written since the reader `low` last ran
    written_since_low_ran: bool,
}

pub struct VarsWorld {
    prog: Prog,
    state: Option<IncrState>,
    t: Option<Var<i32>>,
    g: Option<Var<i32>>,
    s: Option<Var<i32>>,
    r_low: Option<Incr<i32>>,
    r_high: Option<Incr<i32>>,
    o_low: Option<Observer<i32>>,
    o_high: Option<Observer<i32>>,
    /// other observers / incr handles the scenario needs alive
    keep: Vec<Box<dyn Any>>,
    log: Log,
    writer_flag: Rc<Cell<bool>>,
    model: Model,
    dead: bool,
    obs_hash: u64,
    counters: Counters,
    explain: String,
}

fn v(rule: &'static str, sig: impl Into<String>, detail: impl Into<String>) -> Violation {
    Violation::new("C08", rule, sig, detail)
}

impl VarsWorld {
    fn note(&mut self, k: &'static str) {
        *self.counters.entry(k).or_insert(0) += 1;
    }

    fn build(&mut self) {
        let prog = self.prog.clone();
        let state = IncrState::new();
        let log = self.log.clone();
        let t = state.var(0i32);
        if prog.never {
            t.watch().set_cutoff(incremental::Cutoff::Never);
        }
        let g = state.var(0i32);
        let reader = |who: &'static str, log: &Log| {
            let log = log.clone();
            move |x: &i32| {
                log.borrow_mut().push(Ev::Reader { who, saw: *x });
                *x
            }
        };
        let reader2 = |who: &'static str, log: &Log| {
            let log = log.clone();
            move |x: &i32, _: &i32| {
                log.borrow_mut().push(Ev::Reader { who, saw: *x });
                *x
            }
        };
        // reader below the writers' height
        let r_low = t.map(reader("low", &log));
        let g1 = g.map(|x| *x);
        let script = prog.script.clone();
        let mut keep_t = true;
        let r_high: Incr<i32> = match prog.site {
            Site::Outside => t.map2(&g1, reader2("high", &log)),
            Site::MapFn | Site::MapAndHandler => {
                let tw = t.clone();
                let lg = log.clone();
                let sc = script.clone();
                let w = g1.map(move |x| {
                    run_script(&tw, &sc, false, &lg);
                    *x
                });
                let o_w = w.observe();
                if prog.site == Site::MapAndHandler {
                    let th = t.clone();
                    let lg = log.clone();
                    let sc = script.clone();
                    let _tok = o_w.subscribe(move |u: Update<&i32>| match u {
                        Update::Initialised(_) | Update::Changed(_) => run_script(&th, &sc, true, &lg),
                        Update::Invalidated => {}
                    });
                }
                self.keep.push(Box::new(o_w));
                t.map2(&w, reader2("high", &log))
            }
            Site::BindFn => {
                let tw = t.clone();
                let lg = log.clone();
                let sc = script.clone();
                let konst = state.constant(0i32);
                let w = g1.bind(move |_x| {
                    run_script(&tw, &sc, false, &lg);
                    konst.clone()
                });
                let o_w = w.observe();
                self.keep.push(Box::new(o_w));
                t.map2(&w, reader2("high", &log))
            }
            Site::Handler => {
                let o_g = g1.observe();
                let th = t.clone();
                let lg = log.clone();
                let sc = script.clone();
                let _tok = o_g.subscribe(move |u: Update<&i32>| match u {
                    Update::Initialised(_) | Update::Changed(_) => run_script(&th, &sc, true, &lg),
                    Update::Invalidated => {}
                });
                self.keep.push(Box::new(o_g));
                t.map2(&g1, reader2("high", &log))
            }
            Site::SelfFeed => {
                let tw = t.clone();
                let lg = log.clone();
                let sc = script.clone();
                let w = t.map(move |x| {
                    if *x < FEED_LIMIT {
                        run_script(&tw, &sc, false, &lg);
                    }
                    *x
                });
                let o_w = w.observe();
                self.keep.push(Box::new(o_w));
                t.map2(&w, reader2("high", &log))
            }
            Site::LateReader => {
                let tw = t.clone();
                let lg = log.clone();
                let sc = script.clone();
                let w = g1.map(move |x| {
                    run_script(&tw, &sc, false, &lg);
                    *x
                });
                let t_incr = t.watch();
                let konst = state.constant(-1i32);
                let lg2 = log.clone();
                let b = w.bind(move |x: &i32| if *x % 2 == 1 { t_incr.map(reader("late", &lg2)) } else { konst.clone() });
                let o_b = b.observe();
                self.keep.push(Box::new(o_b));
                t.map2(&w, reader2("high", &log))
            }
            Site::Dropped => {
                let s = state.var(0i32);
                let s2 = s.map(|x| *x).map(|x| *x);
                // reader above the writer (height 3), independent of the writer node
                let r_high = t.map2(&s2, reader2("high", &log));
                let tw = t.clone();
                let lg = log.clone();
                let sc = script.clone();
                let flag = DropFlag(self.writer_flag.clone());
                let w = g1.map(move |x| {
                    let _keep = &flag;
                    run_script(&tw, &sc, false, &lg);
                    *x
                });
                // the bind's right-hand side becomes the only owner of the writer node
                let slot: Rc<RefCell<Option<Incr<i32>>>> = Rc::new(RefCell::new(Some(w)));
                let konst = state.constant(0i32);
                let b = s2.bind(move |_s| match slot.borrow_mut().take() {
                    Some(w) => w,
                    None => konst.clone(),
                });
                let o_b = b.observe();
                self.keep.push(Box::new(o_b));
                self.s = Some(s);
                keep_t = false; // the writer closure holds the only Var handle
                r_high
            }
        };
        if prog.observed {
            self.o_low = Some(r_low.observe());
            self.o_high = Some(r_high.observe());
        }
        self.r_low = Some(r_low);
        self.r_high = Some(r_high);
        if keep_t {
            self.t = Some(t);
        } else {
            drop(t);
        }
        self.g = Some(g);
        self.state = Some(state);
    }

    /// is T's watch node necessary (transitively observed)?
    fn t_necessary(&self) -> bool {
        // LateReader: after a round the bind above the writer holds a reader of T iff the trigger variable is odd
        self.model.observed || self.prog.site == Site::SelfFeed || (self.prog.site == Site::LateReader && self.model.g % 2 == 1)
    }

    fn panic_violation(&mut self, what: &str, p: &PanicInfo, vs: &mut Vec<Violation>) {
        self.dead = true;
        self.explain = format!("PANIC in {what} at {}: {}", p.short_location(), p.first_line());
        vs.push(v("C08.panic", format!("{what}@{}", p.short_location()), format!("{what} panicked at {}: {}", p.short_location(), p.first_line())));
        // site `dropped` is also a drop-order scenario (C12): the closure owning the last Var handle is
        // freed by the engine in the middle of a stabilise, possibly with a deferred write pending
        if self.prog.site == Site::Dropped {
            vs.push(Violation::new(
                "C12",
                "C12.panic",
                format!("var-handle-dropped-during-stabilise:{what}@{}", p.short_location()),
                format!("the last handle of a variable was dropped (with its owning closure) during a stabilise and {what} panicked at {}: {}", p.short_location(), p.first_line()),
            ));
        }
    }

    /// reads judged after every action that leaves the engine outside stabilise
    fn probe_get(&mut self, after: &str, rule: &'static str, check: bool, vs: &mut Vec<Violation>) {
        let Some(t) = self.t.clone() else { return };
        match catch(|| t.get()) {
            Ok(x) => {
                self.obs_hash = hash64(&(self.obs_hash, "get", x));
                if check && x != self.model.logical {
                    vs.push(v(rule, format!("get-after-{after}"), format!("get() returned {x} after {after}, the variable's logical value is {}", self.model.logical)));
                }
            }
            Err(p) => self.panic_violation("get", &p, vs),
        }
    }

    /// One stabilise. Returns false when the world died.
    fn round(&mut self, ctx: &str, check: bool, vs: &mut Vec<Violation>) -> bool {
        let site = self.prog.site.name();
        let pre = self.model.logical;
        self.log.borrow_mut().clear();
        let state = self.state.clone().unwrap();
        let res = catch(|| state.stabilise());
        let log: Vec<Ev> = std::mem::take(&mut *self.log.borrow_mut());
        if let Err(p) = res {
            self.explain = format!("log before panic: {log:?}");
            // one signature for the plain and the looped stabilise
            let what = if self.model.alt.is_some() || (self.prog.site == Site::Dropped && !self.model.writer_freed) { "stabilise(dropped-var)" } else { "stabilise" };
            self.panic_violation(what, &p, vs);
            return false;
        }
        for e in log.iter() {
            self.obs_hash = hash64(&(self.obs_hash, e));
        }

        // what the observers of the readers show after the round
        let mut shown: Vec<(&'static str, Result<i32, incremental::ObserverError>)> = vec![];
        for (name, o) in [("low", self.o_low.clone()), ("high", self.o_high.clone())] {
            let Some(o) = o else { continue };
            match catch(|| o.try_get_value()) {
                Ok(x) => {
                    self.obs_hash = hash64(&(self.obs_hash, name, format!("{x:?}")));
                    shown.push((name, x));
                }
                Err(p) => {
                    self.panic_violation("observer-read", &p, vs);
                    return false;
                }
            }
        }

        // ---- site Dropped, a round after the writer died with a pending write: which of the
        // two admissible contents did the engine keep? (first reader that ran, else the first
        // observer; all of them are then judged against that choice)
        let mut pre_eff = pre;
        let judged_as_dropped = self.model.alt.is_some();
        if let Some(alt) = self.model.alt {
            let seen = log
                .iter()
                .find_map(|e| match e {
                    Ev::Reader { saw, .. } => Some(*saw),
                    _ => None,
                })
                .or_else(|| shown.iter().find_map(|(_, x)| x.clone().ok()));
            if let Some(seen) = seen {
                if seen == alt && alt != pre {
                    pre_eff = alt;
                    self.model.logical = alt;
                    self.note("dropped_pending_write_was_discarded");
                } else {
                    self.note("dropped_pending_write_was_applied");
                }
                self.model.alt = None;
            }
        }

        // ---- C06 on a variable with Cutoff::Never: it was written since `low` last ran and `low` is needed by a live
        // observer, so `low` must run in this stabilise, whatever was written
        if self.prog.never {
            let low_ran = log.iter().any(|e| matches!(e, Ev::Reader { who: "low", .. }));
            if self.model.observed && self.model.written_since_low_ran && !low_ran {
                if check {
                    vs.push(Violation::new(
                        "C06",
                        "C06.missed",
                        format!("var-never:{site}"),
                        format!("the variable has Cutoff::Never and was written since its observed reader last ran, yet the reader was not re-invoked in this stabilise (log {log:?})"),
                    ));
                }
            }
            if low_ran || self.model.observed {
                self.model.written_since_low_ran = false;
            }
        }

        // ---- compose the writers of this round in observed program order
        let mut cur = pre_eff;
        let mut wrote_node = false;
        let mut wrote_handler = false;
        let mut writers_seen = 0;
        for e in log.iter() {
            match e {
                Ev::Reader { who, saw } => {
                    if writers_seen > 0 {
                        self.note("reader_ran_after_write_in_same_round");
                    }
                    if check && *saw != pre_eff {
                        let rule = if judged_as_dropped { "C08.dropped_var" } else { "C08.reader_saw_new" };
                        vs.push(v(
                            rule,
                            format!("{who}:{site}{}", if writers_seen > 0 { ":after-write" } else { "" }),
                            format!("reader {who} saw {saw} in a round that started with logical value {pre_eff} (log {log:?})"),
                        ));
                    }
                }
                Ev::Writer { in_handler, before, rets, after } => {
                    writers_seen += 1;
                    let start = cur;
                    let mut exp_rets = vec![];
                    for op in self.prog.script.iter() {
                        let (n, r) = op.apply(cur);
                        cur = n;
                        exp_rets.push(r);
                    }
                    if *in_handler {
                        wrote_handler = true;
                        self.note("writer_ran_in_handler");
                        // status RunningOnUpdateHandlers: behaves like a top-level write
                        if check && (*before != start || *after != cur) {
                            vs.push(v("C08.handler_write", "get-in-handler", format!("in the handler get() returned {before} before / {after} after the script {:?}; expected {start} / {cur}", self.prog.script)));
                        }
                        if check && *rets != exp_rets {
                            vs.push(v("C08.handler_write", "return-in-handler", format!("script {:?} in a handler returned {rets:?}, expected {exp_rets:?} (value before: {start})", self.prog.script)));
                        }
                    } else {
                        wrote_node = true;
                        self.note("writer_ran_in_node_fn");
                        // not stated by the property: witnesses only
                        if *before == pre_eff && *after == pre_eff {
                            self.note("node_get_returned_pre_stabilise_value");
                        } else {
                            self.note("node_get_returned_other_value");
                        }
                        if *rets == exp_rets {
                            self.note("node_replace_returned_composed_value");
                        } else {
                            self.note("node_replace_returned_other_value");
                            // "successive deferred writes compose in program order": an exchange operation (`replace`,
                            // `replace_with`) issued after another deferred write of the same stabilise hands back the value
                            // it replaced, i.e. the pending one, not the pre-stabilise one (judged since seed C08-g; `get()`
                            // inside a node function stays unjudged)
                            if check {
                                vs.push(v("C08.compose", format!("return-in-node-fn:{site}"), format!("script {:?} in a node function returned {rets:?}, composing in program order from {start} gives {exp_rets:?}", self.prog.script)));
                            }
                        }
                    }
                }
            }
        }
        let wrote = wrote_node || wrote_handler;
        if wrote {
            self.model.written_since_low_ran = true;
        }
        if writers_seen > 1 {
            self.note("several_writer_invocations_in_one_round");
        }
        if wrote && log.iter().any(|e| matches!(e, Ev::Reader { .. })) {
            self.note("reader_ran_in_writing_round");
        }
        if wrote_node {
            self.note("round_with_deferred_write");
        }
        self.model.logical = cur;

        // ---- site Dropped: was the writer freed, and did it have a write pending?
        let mut freed_with_pending = false;
        if self.prog.site == Site::Dropped && !self.model.writer_freed && self.writer_flag.get() {
            self.model.writer_freed = true;
            if wrote_node {
                self.note("writer_freed_with_pending_write");
                freed_with_pending = true;
                if cur != pre_eff {
                    self.model.alt = Some(pre_eff);
                }
            } else {
                self.note("writer_freed_without_pending_write");
            }
        }

        // ---- judged reads after the round
        let rule_get: &'static str = if wrote_handler { "C08.handler_write" } else if wrote_node { "C08.compose" } else { "C08.immediate" };
        let after_what = if wrote_handler {
            "round-with-handler-write"
        } else if wrote_node {
            "round-with-deferred-write"
        } else {
            "quiet-round"
        };
        self.probe_get(after_what, rule_get, check, vs);
        if self.dead {
            return false;
        }
        // observers show what the graph saw in this round: the pre-round logical value
        for (name, got) in shown.iter() {
            if check && *got != Ok(pre_eff) {
                let rule = if judged_as_dropped { "C08.dropped_var" } else { "C08.compose" };
                vs.push(v(rule, format!("observer-{name}:{site}"), format!("after a round that started with logical value {pre_eff} the observer of reader {name} shows {got:?}")));
            }
        }
        // is_stable
        let stable = match catch(|| state.is_stable()) {
            Ok(b) => b,
            Err(p) => {
                self.panic_violation("is_stable", &p, vs);
                return false;
            }
        };
        self.obs_hash = hash64(&(self.obs_hash, "stable", stable));
        if wrote && self.t_necessary() && !freed_with_pending {
            if check && stable {
                vs.push(v(
                    "C08.is_stable",
                    format!("stable-after-{}:{site}", if wrote_node { "deferred-write" } else { "handler-write" }),
                    format!("is_stable() is true right after a round in which an observed variable was written (log {log:?})"),
                ));
            }
            if !stable {
                self.note("unstable_after_writing_round");
            }
        } else if !wrote && !stable {
            self.note("quiet_round_but_not_stable");
        }
        if check {
            self.explain.push_str(&format!("[{ctx}: pre={pre_eff} log={log:?} logical={} stable={stable}] ", self.model.logical));
        }
        true
    }

    fn exec(&mut self, a: &Act, check: bool, vs: &mut Vec<Violation>) {
        let site = self.prog.site.name();
        match a {
            Act::Stabilise => {
                self.round("Stabilise", check, vs);
            }
            Act::Trigger => {
                let g = self.g.clone().unwrap();
                let n = 1 - self.model.g;
                match catch(|| g.set(n)) {
                    Ok(()) => self.model.g = n,
                    Err(p) => return self.panic_violation("Trigger", &p, vs),
                }
                self.probe_get("trigger", "C08.immediate", check, vs);
            }
            Act::Flip => {
                let s = self.s.clone().unwrap();
                let n = 1 - self.model.s;
                match catch(|| s.set(n)) {
                    Ok(()) => self.model.s = n,
                    Err(p) => return self.panic_violation("Flip", &p, vs),
                }
            }
            Act::OutsideWrite(op) => {
                let t = self.t.clone().unwrap();
                let op = *op;
                let got = match catch(|| op.run(&t)) {
                    Ok(r) => r,
                    Err(p) => return self.panic_violation(&format!("OutsideWrite-{}", op.kind()), &p, vs),
                };
                let (n, exp) = op.apply(self.model.logical);
                self.obs_hash = hash64(&(self.obs_hash, "ret", got));
                if check && got != exp {
                    vs.push(v("C08.immediate", format!("return-of-{}", op.kind()), format!("{} at top level returned {got:?}, expected {exp:?} (logical value before: {})", op.name(), self.model.logical)));
                }
                self.model.logical = n;
                self.model.written_since_low_ran = true;
                self.note("outside_write");
                self.probe_get(op.kind(), "C08.immediate", check, vs);
                if check {
                    self.explain = format!("{} returned {got:?}; logical={}", op.name(), n);
                }
            }
            Act::ObserveReaders => {
                let (l, h) = (self.r_low.clone().unwrap(), self.r_high.clone().unwrap());
                match catch(|| (l.observe(), h.observe())) {
                    Ok((ol, oh)) => {
                        self.o_low = Some(ol);
                        self.o_high = Some(oh);
                        self.model.observed = true;
                    }
                    Err(p) => return self.panic_violation("ObserveReaders", &p, vs),
                }
                self.probe_get("observe", "C08.immediate", check, vs);
            }
            Act::StabiliseUntilStable => {
                let state = self.state.clone().unwrap();
                let mut iters = 0usize;
                loop {
                    let stable = match catch(|| state.is_stable()) {
                        Ok(b) => b,
                        Err(p) => return self.panic_violation("is_stable", &p, vs),
                    };
                    if stable {
                        break;
                    }
                    if iters == LOOP_CAP {
                        if check {
                            vs.push(v("C08.no_fixpoint", site.to_string(), format!("`while !is_stable() {{ stabilise() }}` did not end within {LOOP_CAP} rounds")));
                        }
                        break;
                    }
                    iters += 1;
                    if !self.round("StabiliseUntilStable", check, vs) {
                        return;
                    }
                }
                if iters > 1 {
                    self.note("loop_needed_several_rounds");
                }
                if iters > 2 {
                    self.note("loop_needed_three_or_more_rounds");
                }
                // fixpoint: everything that is observed agrees with the final contents
                self.probe_get("loop", "C08.fixpoint", check, vs);
                if self.dead {
                    return;
                }
                let mut shown: Vec<(&str, Result<i32, incremental::ObserverError>)> = vec![];
                for (name, o) in [("low", self.o_low.clone()), ("high", self.o_high.clone())] {
                    let Some(o) = o else { continue };
                    match catch(|| o.try_get_value()) {
                        Ok(x) => shown.push((name, x)),
                        Err(p) => return self.panic_violation("observer-read", &p, vs),
                    }
                }
                if check {
                    let allowed: Vec<i32> = std::iter::once(self.model.logical).chain(self.model.alt).collect();
                    for (name, got) in shown.iter() {
                        let ok = matches!(got, Ok(x) if allowed.contains(x));
                        if !ok {
                            let rule = if self.model.alt.is_some() { "C08.dropped_var" } else { "C08.fixpoint" };
                            vs.push(v(rule, format!("observer-{name}:{site}"), format!("after the loop ended ({iters} rounds) the observer of reader {name} shows {got:?}; final variable contents {allowed:?}")));
                        }
                    }
                    if shown.len() == 2 && shown[0].1 != shown[1].1 {
                        vs.push(v("C08.fixpoint", format!("observers-disagree:{site}"), format!("after the loop the two readers of the same variable show {:?} and {:?}", shown[0].1, shown[1].1)));
                    }
                    self.explain.push_str(&format!("loop rounds={iters} shown={shown:?}"));
                }
                if !shown.is_empty() {
                    self.note("fixpoint_compared_observers");
                }
            }
        }
    }
}

impl World for VarsWorld {
    type Prog = Prog;
    type Action = Act;

    fn new(prog: &Prog, _cfg: &Cfg) -> Self {
        let mut w = VarsWorld {
            prog: prog.clone(),
            state: None,
            t: None,
            g: None,
            s: None,
            r_low: None,
            r_high: None,
            o_low: None,
            o_high: None,
            keep: vec![],
            log: Rc::new(RefCell::new(vec![])),
            writer_flag: Rc::new(Cell::new(false)),
            model: Model {
                logical: 0,
                alt: None,
                g: 0,
                s: 0,
                observed: prog.observed,
                writer_freed: false,
                written_since_low_ran: false,
            },
            dead: false,
            obs_hash: 0,
            counters: Counters::new(),
            explain: String::new(),
        };
        // construction is part of every history; a panic here shows up at the first step
        if catch(|| w.build()).is_err() {
            w.dead = true;
        }
        w
    }

    fn enabled(&self) -> Vec<Act> {
        if self.dead || self.state.is_none() {
            return vec![];
        }
        let mut acts = vec![Act::Stabilise];
        match self.prog.site {
            Site::Outside | Site::SelfFeed => {}
            _ => acts.push(Act::Trigger),
        }
        if self.t.is_some() {
            for op in self.prog.outside.iter() {
                acts.push(Act::OutsideWrite(*op));
            }
        }
        if !self.model.observed {
            acts.push(Act::ObserveReaders);
        }
        if self.prog.site == Site::Dropped {
            acts.push(Act::Flip);
        }
        acts.push(Act::StabiliseUntilStable);
        acts
    }

    fn step(&mut self, a: &Act, check: bool) -> Vec<Violation> {
        let mut vs = vec![];
        self.explain.clear();
        self.counters.clear(); // witness counters of the last step only
        if self.state.is_none() {
            self.dead = true;
            vs.push(v("C08.panic", "build", "building the scenario panicked"));
            return vs;
        }
        self.exec(a, check, &mut vs);
        vs
    }

    fn canon(&self) -> Option<String> {
        let st = self.state.as_ref()?;
        let dump = canonicalise_dump(&st.verif_dump());
        Some(format!("{dump}\nMODEL {:?} flag={}", self.model, self.writer_flag.get()))
    }

    fn dead(&self) -> bool {
        self.dead
    }

    fn observation_hash(&self) -> u64 {
        self.obs_hash
    }

    fn take_counters(&mut self) -> Counters {
        std::mem::take(&mut self.counters)
    }

    fn teardown(mut self) {
        let _ = catch(|| {
            self.o_low.take();
            self.o_high.take();
            self.keep.clear();
            self.r_low.take();
            self.r_high.take();
            self.t.take();
            self.g.take();
            self.s.take();
            self.state.take();
        });
    }

    fn prog_json(p: &Prog) -> Json {
        json!({
            "site": p.site.name(),
            "script": p.script.iter().map(|o| o.name()).collect::<Vec<_>>(),
            "observed": p.observed,
            "outside": p.outside.iter().map(|o| o.name()).collect::<Vec<_>>(),
            "never": p.never,
        })
    }

    fn prog_from_json(j: &Json) -> Option<Prog> {
        let ops = |k: &str| -> Option<Vec<Op>> { j[k].as_array()?.iter().map(|x| Op::parse(x.as_str()?)).collect() };
        Some(Prog {
            site: Site::parse(j["site"].as_str()?)?,
            script: ops("script")?,
            observed: j["observed"].as_bool()?,
            outside: ops("outside")?,
            never: j["never"].as_bool().unwrap_or(false),
        })
    }

    fn action_json(a: &Act) -> Json {
        match a {
            Act::Stabilise => json!("stabilise"),
            Act::Trigger => json!("trigger"),
            Act::OutsideWrite(op) => json!({"write": op.name()}),
            Act::ObserveReaders => json!("observe_readers"),
            Act::Flip => json!("flip"),
            Act::StabiliseUntilStable => json!("stabilise_until_stable"),
        }
    }

    fn action_from_json(j: &Json) -> Option<Act> {
        if let Some(s) = j.as_str() {
            return match s {
                "stabilise" => Some(Act::Stabilise),
                "trigger" => Some(Act::Trigger),
                "observe_readers" => Some(Act::ObserveReaders),
                "flip" => Some(Act::Flip),
                "stabilise_until_stable" => Some(Act::StabiliseUntilStable),
                _ => None,
            };
        }
        Some(Act::OutsideWrite(Op::parse(j["write"].as_str()?)?))
    }

    fn audit(&self) -> Vec<String> {
        self.state.as_ref().map_or(vec![], |s| s.verif_audit())
    }
    fn explain_last(&self) -> String {
        self.explain.clone()
    }
}

// ---------------------------------------------------------------------------------------
// families

/// all sequences over `symbols` of length 1..=max_len, shortest first
pub fn scripts(symbols: &[Op], max_len: usize) -> Vec<Vec<Op>> {
    let mut out: Vec<Vec<Op>> = vec![];
    let mut layer: Vec<Vec<Op>> = vec![vec![]];
    for _ in 0..max_len {
        let mut next = vec![];
        for s in layer.iter() {
            for op in symbols {
                let mut n = s.clone();
                n.push(*op);
                next.push(n);
            }
        }
        out.extend(next.iter().cloned());
        layer = next;
    }
    out
}

pub const SYM5: [Op; 5] = [Op::Set(5), Op::Update, Op::Modify, Op::Replace(6), Op::ReplaceWith];
pub const SYM7: [Op; 7] = [Op::Set(5), Op::Set(6), Op::Update, Op::Modify, Op::Replace(5), Op::Replace(6), Op::ReplaceWith];

pub fn family(name: &str) -> Vec<Prog> {
    let (base, full) = match name.strip_suffix("-full") {
        Some(b) => (b, true),
        None => (name, false),
    };
    // quick: 155 scripts (5 symbols, length <= 3), two top-level write symbols;
    // full:  780 scripts (5 symbols, length <= 4) + the 2-constant alphabet at length <= 2, all five top-level symbols
    let scr: Vec<Vec<Op>> = if full {
        let mut s = scripts(&SYM5, 4);
        for x in scripts(&SYM7, 2) {
            if !s.contains(&x) {
                s.push(x);
            }
        }
        s
    } else {
        scripts(&SYM5, 3)
    };
    let outside: Vec<Op> = if full { SYM5.to_vec() } else { vec![Op::Set(5), Op::Update] };
    let sites: Vec<Site> = match base {
        "c08/outside" => {
            let alphabet: Vec<Op> = if full { SYM7.to_vec() } else { SYM5.to_vec() };
            return [true, false]
                .iter()
                .map(|o| Prog {
                    site: Site::Outside,
                    script: vec![],
                    observed: *o,
                    outside: alphabet.clone(),
                    never: false,
                })
                .collect();
        }
        // T carries Cutoff::Never; scripts of length <= 2 over {set 5, update, replace 6}, three writer sites
        "c08/never" => {
            let mut out = vec![];
            for site in [Site::MapFn, Site::Handler, Site::Outside] {
                let scr: Vec<Vec<Op>> = if site == Site::Outside { vec![vec![]] } else { scripts(&[Op::Set(5), Op::Update, Op::Replace(6)], 2) };
                for s in scr {
                    for observed in [true, false] {
                        out.push(Prog { site, script: s.clone(), observed, outside: vec![Op::Set(5), Op::Replace(6)], never: true });
                    }
                }
            }
            return out;
        }
        "c08/node" => vec![Site::MapFn, Site::BindFn],
        "c08/handler" => vec![Site::Handler, Site::MapAndHandler],
        "c08/selffeed" => vec![Site::SelfFeed],
        "c08/dropped" => vec![Site::Dropped],
        "c08/late" => vec![Site::LateReader],
        _ => return vec![],
    };
    let mut out = vec![];
    for site in sites {
        for s in scr.iter() {
            for observed in [true, false] {
                out.push(Prog {
                    site,
                    script: s.clone(),
                    observed,
                    outside: if site == Site::Dropped { vec![] } else { outside.clone() },
                    never: false,
                });
            }
        }
    }
    out
}
