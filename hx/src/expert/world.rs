//! The expert world: three constructions written with `incremental::expert` (join, bind, dynamic
//! sum), executed on the real engine in lock-step with a from-scratch reference, plus the C14
//! monitors. All state owned by user closures lives in `Harness` (printed by `canon()`).
//!
//! Usage rules respected by construction (DESIGN §6 C04/C14): the expert node is mutated
//! (add/remove dependency, make_stale, invalidate) only from inside the function of a Map node
//! that is its static dependency at child index 0 (added right after creation, outside
//! stabilise, exactly as `tests/expert.rs` does); edge callbacks only write harness slots.
//! Nodes created inside the regular `bind` are only ever depended upon while that bind is
//! necessary (through the selector map / bind lhs, or through a pinned observer in the join
//! construction). No debug assertion of the engine fires on any generated history.
//!
//! Graph (all programs): vars a (1|2), b (10|20), k (1|2); m = a+100;
//! bnd = k.bind(|kv| b.map(x + 1000 kv)) (its inner node is the invalidatable candidate, handed
//! to the harness through `Harness::stash`); X = the expert node; D = X.map(+1).
//!
//! * Sum: `selmap = map2(sel, bnd)` (or `map(sel)` without an inner candidate) diffs the wanted
//!   multiset against the `Dependency` handles; edge callbacks fill per-edge slots; X sums them.
//! * Join: `tests/expert.rs::join` over `outer: Var<Incr<i32>>`.
//! * Bind: `tests/expert.rs::bind` over `lhs = map2(sw, bnd)` with `Cutoff::Never` (see there).
//!
//! Oracles (after every Stabilise; panics after every action):
//! * C14.value      observer of X / D == reference (when the reference says valid)
//! * C14.wedged     observer reads ObservingInvalid although the reference says valid
//! * C14.callback_missing / C14.callback_stale   at every logged run of X (Sum): every edge that
//!   was added since X's previous run, or (first run after X became needed again) every edge, or
//!   whose child's reference value differs from the one at X's previous run, must have had a
//!   callback since X's previous run, the last one carrying the child's reference value
//! * C14.make_stale exactly one run of X in the stabilise in which make_stale was called; no run
//!   in the directly following stabilise
//! * C14.invalidate after the call, every observer of X and D reads ObservingInvalid, for good
//! * C14.panic
//!
//! Deliberate slack:
//! * extra callbacks (and callbacks of edges that no longer exist) are never judged;
//! * "nothing changed" after make_stale is only claimed for two *adjacent* Stabilise actions;
//! * a join whose outer var holds an invalidated node when it is recomputed is invalid by the
//!   engine's own rule (like a bind main over an invalid rhs); from then on that history is not
//!   judged for values (the property is silent on it) - only panics;
//! * re-observation is only claimed when no observer of X or D was alive at the previous
//!   stabilise (drop + re-observe within one round keeps the node needed: not claimed);
//! * whether the selector map / lhs-change ran is taken from the log, not predicted;
//! * after a wedge (node wrongly invalid) the history is not expanded further, and make_stale
//!   is not judged in the step that revealed the wedge (one defect, one signature).

use crate::core::*;
use crate::graph::ObsErr;
use incremental::expert::{Dependency, Node as XNode, WeakNode as XWeak};
use incremental::{Incr, IncrState, Observer, Var};
use serde_json::{json, Value as Json};
use std::cell::RefCell;
use std::rc::Rc;

// ---------------------------------------------------------------------------------------
// programs

#[derive(Clone, Copy, Debug, PartialEq, Eq, Hash)]
pub enum Cons {
    /// `join` of tests/expert.rs over a `Var<Incr<i32>>`
    Join,
    /// `bind` of tests/expert.rs over (switch var, regular bind)
    Bind,
    /// expert node with a dynamic multiset of dependencies, callbacks keep per-edge slots
    Sum,
}

#[derive(Clone, Copy, Debug, PartialEq, Eq, Hash)]
pub enum Cand {
    /// watch node of var a
    A,
    /// watch node of var b
    B,
    /// shared map node a+100
    M,
    /// the node created inside the regular bind `k.bind(|kv| b.map(x + 1000 kv))` (invalidatable)
    Inner,
    /// (Bind only) a node `a.map(x+500)` created afresh by every run of the bind function
    Fresh,
    /// a tall chain `b.map(id).map(id).map(id).map(id)`, kept necessary by a pinned observer: a dependency on it lifts
    /// the expert node above the lhs-change node of the regular bind of `via` programs
    T,
}

impl Cand {
    fn code(self) -> &'static str {
        match self {
            Cand::A => "a",
            Cand::B => "b",
            Cand::M => "m",
            Cand::Inner => "i",
            Cand::Fresh => "f",
            Cand::T => "t",
        }
    }
    fn from_code(s: &str) -> Option<Cand> {
        Some(match s {
            "a" => Cand::A,
            "b" => Cand::B,
            "m" => Cand::M,
            "i" => Cand::Inner,
            "f" => Cand::Fresh,
            "t" => Cand::T,
            _ => return None,
        })
    }
}

#[derive(Clone, Copy, Debug, PartialEq, Eq, Hash)]
pub enum Pick {
    First,
    Middle,
    Last,
}

#[derive(Clone, Debug, PartialEq)]
pub struct Prog {
    pub name: String,
    pub cons: Cons,
    pub cands: Vec<Cand>,
    /// Sum: highest multiplicity of dependencies on one child
    pub max_mult: u8,
    /// Sum: which of the handles on one child is removed when its multiplicity drops
    pub pick: Pick,
    /// Sum: within one selector run, add new dependencies before removing old ones
    pub add_first: bool,
    /// Sum: initial multiplicities; Join/Bind: `init[0]` = initially chosen candidate
    pub init: Vec<u8>,
    /// keep an observer on m / on the regular bind for the whole history
    pub pin_m: bool,
    pub pin_bnd: bool,
    /// keep an observer on the *driver* (the selector map / lhs-change map whose function adds and removes the
    /// dependencies) for the whole history: it keeps running, and mutating the expert node, while the expert node
    /// itself is unobserved (added after seed C14-c; only used without Inner candidates / make_stale / invalidate)
    pub pin_driver: bool,
    /// which of the vars a, b, k the history may toggle
    pub toggles: Vec<u8>,
    /// Sum: actions make_stale / invalidate
    pub stale: bool,
    pub inval: bool,
    /// observers on the dependant map over the expert node
    pub obs_d: bool,
    /// the expert node is observed only *through a regular bind* `V = via'.bind(|s| if s { X } else { constant -1 })`
    /// (`via' = map2(via, unit)`, so the bind's lhs-change node sits at height 2, above the driver and below an expert
    /// node that depends on `T`): toggling `via` makes the expert node unnecessary / necessary again *in the middle of
    /// a stabilise*, after its driver has already changed its dependencies or called make_stale (after seed C14-e).
    /// `ObsX` / `DropX` then act on V. Only without Inner candidates and without invalidate.
    pub via: bool,
    /// the history never drops the observer of the expert node (of V in `via` programs): a smaller alphabet for the
    /// focused programs that need 11 actions
    pub no_drop: bool,
}

impl Prog {
    pub fn has_inner(&self) -> bool {
        self.cands.contains(&Cand::Inner)
    }
    pub fn to_json(&self) -> Json {
        json!({
            "name": self.name,
            "cons": match self.cons { Cons::Join => "join", Cons::Bind => "bind", Cons::Sum => "sum" },
            "cands": self.cands.iter().map(|c| c.code()).collect::<Vec<_>>(),
            "max_mult": self.max_mult,
            "pick": match self.pick { Pick::First => "first", Pick::Middle => "middle", Pick::Last => "last" },
            "add_first": self.add_first,
            "init": self.init,
            "pin_m": self.pin_m,
            "pin_bnd": self.pin_bnd,
            "pin_driver": self.pin_driver,
            "toggles": self.toggles,
            "stale": self.stale,
            "inval": self.inval,
            "obs_d": self.obs_d,
            "via": self.via,
            "no_drop": self.no_drop,
        })
    }
    pub fn from_json(j: &Json) -> Option<Prog> {
        Some(Prog {
            name: j["name"].as_str()?.to_string(),
            cons: match j["cons"].as_str()? {
                "join" => Cons::Join,
                "bind" => Cons::Bind,
                "sum" => Cons::Sum,
                _ => return None,
            },
            cands: j["cands"].as_array()?.iter().map(|c| c.as_str().and_then(Cand::from_code)).collect::<Option<Vec<_>>>()?,
            max_mult: j["max_mult"].as_u64()? as u8,
            pick: match j["pick"].as_str()? {
                "first" => Pick::First,
                "middle" => Pick::Middle,
                "last" => Pick::Last,
                _ => return None,
            },
            add_first: j["add_first"].as_bool()?,
            init: j["init"].as_array()?.iter().map(|x| x.as_u64().map(|x| x as u8)).collect::<Option<Vec<_>>>()?,
            pin_m: j["pin_m"].as_bool()?,
            pin_bnd: j["pin_bnd"].as_bool()?,
            pin_driver: j["pin_driver"].as_bool().unwrap_or(false),
            toggles: j["toggles"].as_array()?.iter().map(|x| x.as_u64().map(|x| x as u8)).collect::<Option<Vec<_>>>()?,
            stale: j["stale"].as_bool()?,
            inval: j["inval"].as_bool()?,
            obs_d: j["obs_d"].as_bool()?,
            via: j["via"].as_bool().unwrap_or(false),
            no_drop: j["no_drop"].as_bool().unwrap_or(false),
        })
    }
}

#[derive(Clone, Debug, PartialEq, Eq)]
pub enum Act {
    Stabilise,
    ObsX,
    DropX,
    ObsD,
    DropD,
    /// 0 = a (1<->2), 1 = b (10<->20), 2 = k (1<->2)
    Toggle(u8),
    /// Sum: candidate index, new multiplicity
    SetMult(u8, u8),
    /// Join: outer var := candidate node (Inner = the node currently produced by the regular bind)
    SetOuter(u8),
    /// Bind: switch var := candidate index
    SetSw(u8),
    /// Sum: ask the selector map to call make_stale on its next run
    Stale,
    /// Sum: ask the selector map to call invalidate on its next run
    Inval,
    /// `via` programs: flip the var that decides whether the regular bind V returns the expert node or a constant
    ToggleVia,
}

impl Act {
    fn kind(&self) -> &'static str {
        match self {
            Act::Stabilise => "Stabilise",
            Act::ObsX => "ObsX",
            Act::DropX => "DropX",
            Act::ObsD => "ObsD",
            Act::DropD => "DropD",
            Act::Toggle(_) => "Toggle",
            Act::SetMult(..) => "SetMult",
            Act::SetOuter(_) => "SetOuter",
            Act::SetSw(_) => "SetSw",
            Act::Stale => "Stale",
            Act::Inval => "Inval",
            Act::ToggleVia => "ToggleVia",
        }
    }
    pub fn to_json(&self) -> Json {
        Json::String(match self {
            Act::Toggle(v) => format!("Toggle:{v}"),
            Act::SetMult(i, m) => format!("SetMult:{i}:{m}"),
            Act::SetOuter(i) => format!("SetOuter:{i}"),
            Act::SetSw(i) => format!("SetSw:{i}"),
            other => other.kind().to_string(),
        })
    }
    pub fn from_json(j: &Json) -> Option<Act> {
        let s = j.as_str()?;
        let mut it = s.split(':');
        let k = it.next()?;
        let mut num = || it.next().and_then(|x| x.parse::<u8>().ok());
        Some(match k {
            "Stabilise" => Act::Stabilise,
            "ObsX" => Act::ObsX,
            "DropX" => Act::DropX,
            "ObsD" => Act::ObsD,
            "DropD" => Act::DropD,
            "Toggle" => Act::Toggle(num()?),
            "SetMult" => {
                let i = num()?;
                Act::SetMult(i, num()?)
            }
            "SetOuter" => Act::SetOuter(num()?),
            "SetSw" => Act::SetSw(num()?),
            "Stale" => Act::Stale,
            "Inval" => Act::Inval,
            "ToggleVia" => Act::ToggleVia,
            _ => return None,
        })
    }
}

// ---------------------------------------------------------------------------------------
// harness state shared with the user closures

/// Which node an edge points at: candidate + generation (generation of the regular bind for
/// `Inner`, serial number for `Fresh`, 0 otherwise).
#[derive(Clone, Copy, Debug, PartialEq, Eq, Hash)]
pub struct ChildId {
    cand: Cand,
    gen: u32,
}

#[derive(Clone, Debug, PartialEq)]
pub struct Snap {
    edge: u32,
    child: ChildId,
    slot: Option<i32>,
    /// last value a callback of this edge carried since the previous recompute
    last_cb: Option<i32>,
    added_since: bool,
}

#[derive(Clone, Debug, PartialEq)]
pub enum Ev {
    BindRun { gen: u32, kv: i32 },
    SelRun,
    Add { edge: u32, child: ChildId },
    Remove { child: ChildId, pos: usize, of: usize, child_stale_gen: bool },
    Cb { edge: u32, child: ChildId, v: i32 },
    CbOrphan { edge: u32, v: i32 },
    /// the expert node's own function ran
    Recompute { snap: Vec<Snap>, out: i32 },
    MakeStale,
    Invalidate,
    /// join / bind lhs-change function ran; `same` = bind found the same rhs and did nothing
    LhsRun { same: bool, removed_stale_gen: bool },
    FreshMade,
    DRun(i32),
    ObsChange(bool),
    Oops(&'static str),
}

#[derive(Clone, Debug, PartialEq)]
pub struct Sel {
    mult: Vec<u8>,
    tok: u8,
    inval: bool,
}

struct EdgeRec {
    id: u32,
    child: ChildId,
    dep: Option<Dependency<i32>>,
    slot: Option<i32>,
    last_cb: Option<i32>,
    added_since: bool,
    /// monitor: reference value of the child at the previous recompute of the expert node
    at_prev: Option<i32>,
}

#[derive(Default)]
struct Harness {
    log: Vec<Ev>,
    /// node currently produced by the regular bind, with its generation
    stash: Option<(u32, Incr<i32>)>,
    gen: u32,
    // Sum
    edges: Vec<EdgeRec>,
    next_edge: u32,
    seen_tok: u8,
    seen_inval: bool,
    // Join / Bind
    prev: Option<(ChildId, Dependency<i32>)>,
    fresh: u32,
    /// Join: identity of the node the harness last put into the outer var (labelling only)
    outer_id: Option<ChildId>,
}

type H = Rc<RefCell<Harness>>;

fn hlog(h: &H, ev: Ev) {
    h.borrow_mut().log.push(ev);
}

struct CandNodes {
    cands: Vec<Cand>,
    a: Incr<i32>,
    b: Incr<i32>,
    m: Incr<i32>,
    t: Option<Incr<i32>>,
}

impl CandNodes {
    /// resolve a candidate to (identity, node) at the time a child's function runs
    fn resolve(&self, c: Cand, h: &H) -> Option<(ChildId, Incr<i32>)> {
        match c {
            Cand::A => Some((ChildId { cand: c, gen: 0 }, self.a.clone())),
            Cand::B => Some((ChildId { cand: c, gen: 0 }, self.b.clone())),
            Cand::M => Some((ChildId { cand: c, gen: 0 }, self.m.clone())),
            Cand::T => self.t.as_ref().map(|t| (ChildId { cand: c, gen: 0 }, t.clone())),
            Cand::Inner => {
                let hb = h.borrow();
                hb.stash.as_ref().map(|(g, n)| (ChildId { cand: c, gen: *g }, n.clone()))
            }
            Cand::Fresh => {
                let n = self.a.map(|x| *x + 500);
                let mut hb = h.borrow_mut();
                hb.fresh += 1;
                let g = hb.fresh;
                hb.log.push(Ev::FreshMade);
                Some((ChildId { cand: c, gen: g }, n))
            }
        }
    }
}

fn pick_index(pick: Pick, n: usize) -> usize {
    match pick {
        Pick::First => 0,
        Pick::Last => n - 1,
        Pick::Middle => (n - 1) / 2,
    }
}

/// The function of the selector map of the Sum construction: brings the expert node's
/// dependencies in line with `sel`, then honours the make_stale / invalidate requests.
/// Never holds a harness borrow across an engine call (callbacks may run synchronously).
fn sel_run(h: &H, s: &XWeak<i32>, nodes: &CandNodes, prog: &Prog, sel: &Sel) {
    hlog(h, Ev::SelRun);
    // wanted multiset
    let mut wanted: Vec<(ChildId, Incr<i32>, usize)> = vec![];
    for (i, c) in nodes.cands.iter().enumerate() {
        let want = sel.mult.get(i).copied().unwrap_or(0) as usize;
        if want == 0 {
            continue;
        }
        match nodes.resolve(*c, h) {
            Some((id, n)) => wanted.push((id, n, want)),
            None => hlog(h, Ev::Oops("wanted candidate has no node yet")),
        }
    }
    let cur_gen = h.borrow().gen;
    // plan removals on a copy of the handle list
    let mut list: Vec<(u32, ChildId)> = h.borrow().edges.iter().map(|e| (e.id, e.child)).collect();
    let mut removes: Vec<(u32, ChildId, usize, usize)> = vec![];
    let mut distinct: Vec<ChildId> = vec![];
    for (_, c) in list.iter() {
        if !distinct.contains(c) {
            distinct.push(*c);
        }
    }
    for c in distinct.iter() {
        let want = wanted.iter().find(|w| w.0 == *c).map_or(0, |w| w.2);
        loop {
            let group: Vec<usize> = list.iter().enumerate().filter(|(_, e)| e.1 == *c).map(|(i, _)| i).collect();
            if group.len() <= want {
                break;
            }
            let gi = pick_index(prog.pick, group.len());
            let li = group[gi];
            removes.push((list[li].0, *c, gi, group.len()));
            list.remove(li);
        }
    }
    let mut adds: Vec<(ChildId, Incr<i32>)> = vec![];
    for (c, n, want) in wanted.iter() {
        let have = list.iter().filter(|e| e.1 == *c).count();
        for _ in have..*want {
            adds.push((*c, n.clone()));
        }
    }
    let do_removes = |removes: &[(u32, ChildId, usize, usize)]| {
        for (id, c, pos, of) in removes {
            let dep = {
                let mut hb = h.borrow_mut();
                let Some(ix) = hb.edges.iter().position(|e| e.id == *id) else { continue };
                let rec = hb.edges.remove(ix);
                let stale_gen = c.cand == Cand::Inner && c.gen != cur_gen;
                hb.log.push(Ev::Remove { child: *c, pos: *pos, of: *of, child_stale_gen: stale_gen });
                rec.dep
            };
            if let Some(dep) = dep {
                s.remove_dependency(dep);
            }
        }
    };
    let do_adds = |adds: &[(ChildId, Incr<i32>)]| {
        for (c, n) in adds {
            let id = {
                let mut hb = h.borrow_mut();
                let id = hb.next_edge;
                hb.next_edge += 1;
                hb.edges.push(EdgeRec { id, child: *c, dep: None, slot: None, last_cb: None, added_since: true, at_prev: None });
                hb.log.push(Ev::Add { edge: id, child: *c });
                id
            };
            let hc = h.clone();
            let dep = s.add_dependency_with(n, move |v: &i32| {
                let mut hb = hc.borrow_mut();
                let v = *v;
                match hb.edges.iter_mut().find(|e| e.id == id) {
                    Some(e) => {
                        e.slot = Some(v);
                        e.last_cb = Some(v);
                        let child = e.child;
                        hb.log.push(Ev::Cb { edge: id, child, v });
                    }
                    None => hb.log.push(Ev::CbOrphan { edge: id, v }),
                }
            });
            let mut hb = h.borrow_mut();
            if let Some(e) = hb.edges.iter_mut().find(|e| e.id == id) {
                e.dep = Some(dep);
            }
        }
    };
    if prog.add_first {
        do_adds(&adds);
        do_removes(&removes);
    } else {
        do_removes(&removes);
        do_adds(&adds);
    }
    let (stale, inval) = {
        let mut hb = h.borrow_mut();
        let stale = sel.tok != hb.seen_tok;
        hb.seen_tok = sel.tok;
        let inval = sel.inval && !hb.seen_inval;
        hb.seen_inval |= sel.inval;
        if stale {
            hb.log.push(Ev::MakeStale);
        }
        (stale, inval)
    };
    if stale {
        s.make_stale();
    }
    if inval {
        hlog(h, Ev::Invalidate);
        s.invalidate();
    }
}

struct Real {
    // observers first: they are dropped before the nodes and the state
    obs_x: Option<Observer<i32>>,
    obs_d: Option<Observer<i32>>,
    /// held only to keep m / the regular bind necessary
    #[allow(dead_code)]
    pins: Vec<Observer<i32>>,
    #[allow(dead_code)]
    pin_driver: Option<Observer<()>>,
    a: Var<i32>,
    b: Var<i32>,
    k: Var<i32>,
    sel: Option<Var<Sel>>,
    outer: Option<Var<Incr<i32>>>,
    sw: Option<Var<i32>>,
    cand_a: Incr<i32>,
    cand_b: Incr<i32>,
    m: Incr<i32>,
    t: Option<Incr<i32>>,
    via: Option<Var<bool>>,
    /// `via` programs: the regular bind over the expert node
    v: Option<Incr<i32>>,
    x: Incr<i32>,
    d: Incr<i32>,
    state: IncrState,
}

fn build(prog: &Prog, h: &H) -> Real {
    let state = IncrState::new();
    let a = state.var(1i32);
    let b = state.var(10i32);
    let k = state.var(1i32);
    let m = a.map(|x| *x + 100);
    let bnd: Option<Incr<i32>> = if prog.has_inner() {
        let h2 = h.clone();
        let bw = b.watch();
        Some(k.bind(move |kv: &i32| {
            let kv = *kv;
            let inner = bw.map(move |x| *x + 1000 * kv);
            let mut hb = h2.borrow_mut();
            hb.gen += 1;
            let g = hb.gen;
            hb.stash = Some((g, inner.clone()));
            hb.log.push(Ev::BindRun { gen: g, kv });
            inner
        }))
    } else {
        None
    };
    let t: Option<Incr<i32>> = if prog.cands.contains(&Cand::T) { Some(b.map(|x| *x).map(|x| *x).map(|x| *x).map(|x| *x)) } else { None };
    let nodes = CandNodes { cands: prog.cands.clone(), a: a.watch(), b: b.watch(), m: m.clone(), t: t.clone() };
    let mut sel_var = None;
    let mut outer_var = None;
    let mut sw_var = None;
    let mut driver: Option<Incr<()>> = None;
    let x: Incr<i32> = match prog.cons {
        Cons::Sum => {
            let sel = state.var(Sel { mult: prog.init.clone(), tok: 0, inval: false });
            let hr = h.clone();
            let ho = h.clone();
            let s = XNode::<i32>::new_(
                &state.weak(),
                move || {
                    let mut hb = hr.borrow_mut();
                    let snap: Vec<Snap> = hb.edges.iter().map(|e| Snap { edge: e.id, child: e.child, slot: e.slot, last_cb: e.last_cb, added_since: e.added_since }).collect();
                    for e in hb.edges.iter_mut() {
                        e.last_cb = None;
                        e.added_since = false;
                    }
                    let out: i32 = snap.iter().map(|s| s.slot.unwrap_or(0)).sum();
                    hb.log.push(Ev::Recompute { snap, out });
                    out
                },
                move |b| hlog(&ho, Ev::ObsChange(b)),
            );
            let sweak = s.weak();
            let hs = h.clone();
            let p2 = prog.clone();
            let selmap: Incr<()> = match &bnd {
                Some(bnd) => sel.map2(bnd, move |sel: &Sel, _bnd: &i32| sel_run(&hs, &sweak, &nodes, &p2, sel)),
                None => sel.map(move |sel: &Sel| sel_run(&hs, &sweak, &nodes, &p2, sel)),
            };
            // static dependency, child index 0, created before every dynamic dependency
            s.add_dependency(&selmap);
            driver = Some(selmap.clone());
            sel_var = Some(sel);
            s.watch()
        }
        Cons::Join => {
            // tests/expert.rs `join`, with the bookkeeping cell owned by the harness
            let first = prog.cands[prog.init[0] as usize];
            let (first_id, first_node) = nodes.resolve(first, h).expect("initial join choice must pre-exist");
            h.borrow_mut().outer_id = Some(first_id);
            let outer = state.var(first_node);
            let hr = h.clone();
            let join = XNode::<i32>::new(&state.weak(), move || {
                let dep = hr.borrow().prev.as_ref().map(|p| p.1.clone());
                let out = dep.unwrap().value_cloned();
                hr.borrow_mut().log.push(Ev::Recompute { snap: vec![], out });
                out
            });
            let join_ = join.weak();
            let hl = h.clone();
            let lhs_change = outer.map(move |rhs: &Incr<i32>| {
                let dep = join_.add_dependency(rhs);
                let prev = hl.borrow_mut().prev.take();
                let mut stale_gen = false;
                if let Some((pc, prev)) = prev {
                    stale_gen = pc.cand == Cand::Inner && pc.gen != hl.borrow().gen;
                    join_.remove_dependency(prev);
                }
                // identity of the new child: recorded by the harness when it set the var
                let mut hb = hl.borrow_mut();
                let id = hb.outer_id.unwrap_or(ChildId { cand: Cand::A, gen: 0 });
                hb.prev = Some((id, dep));
                hb.log.push(Ev::LhsRun { same: false, removed_stale_gen: stale_gen });
            });
            join.add_dependency(&lhs_change);
            driver = Some(lhs_change.clone());
            outer_var = Some(outer);
            join.watch()
        }
        Cons::Bind => {
            // tests/expert.rs `bind`; lhs = (switch, value of the regular bind) so that the bind
            // function always runs after the regular bind has produced its current node
            let sw = state.var(prog.init[0] as i32);
            let lhs: Incr<(i32, i32)> = match &bnd {
                Some(bnd) => sw.map2(bnd, |s: &i32, v: &i32| (*s, *v)),
                None => sw.map(|s: &i32| (*s, 0)),
            };
            // The bind function reads the regular bind's current node from the harness, so it must
            // re-run whenever the regular bind changed, even if the pair compares equal to the one
            // seen before an unobserved period (k: 1 -> 2 -> 1 while only the pinned observer kept
            // the regular bind alive). Without this the *harness* would keep a dependency on an
            // invalidated node and blame the engine for it.
            lhs.set_cutoff(incremental::Cutoff::Never);
            let hr = h.clone();
            let join = XNode::<i32>::new_cyclic(&state.weak(), move |_weak| {
                move || {
                    let dep = hr.borrow().prev.as_ref().map(|p| p.1.clone());
                    let out = dep.unwrap().value_cloned();
                    hr.borrow_mut().log.push(Ev::Recompute { snap: vec![], out });
                    out
                }
            });
            let join_ = join.weak();
            let hl = h.clone();
            let lhs_change = lhs.map(move |input: &(i32, i32)| {
                let c = nodes.cands[input.0 as usize];
                let Some((id, rhs)) = nodes.resolve(c, &hl) else {
                    hlog(&hl, Ev::Oops("bind function found no node"));
                    return;
                };
                let same = hl.borrow().prev.as_ref().map_or(false, |p| p.1.node() == rhs);
                if same {
                    hlog(&hl, Ev::LhsRun { same: true, removed_stale_gen: false });
                    return;
                }
                let dep = join_.add_dependency(&rhs);
                let prev = hl.borrow_mut().prev.take();
                let mut stale_gen = false;
                if let Some((pc, prev)) = prev {
                    stale_gen = pc.cand == Cand::Inner && pc.gen != hl.borrow().gen;
                    join_.remove_dependency(prev);
                }
                let mut hb = hl.borrow_mut();
                hb.prev = Some((id, dep));
                hb.log.push(Ev::LhsRun { same: false, removed_stale_gen: stale_gen });
            });
            join.add_dependency(&lhs_change);
            driver = Some(lhs_change.clone());
            sw_var = Some(sw);
            join.watch()
        }
    };
    let hd = h.clone();
    let d = x.map(move |v: &i32| {
        hlog(&hd, Ev::DRun(*v));
        *v + 1
    });
    let mut pins = vec![];
    if prog.pin_m {
        pins.push(m.observe());
    }
    if prog.pin_bnd {
        if let Some(bnd) = &bnd {
            pins.push(bnd.observe());
        }
    }
    if let Some(t) = &t {
        pins.push(t.observe());
    }
    let pin_driver = if prog.pin_driver { driver.as_ref().map(|d| d.observe()) } else { None };
    let (via, v) = if prog.via {
        let via = state.var(true);
        let unit = state.constant(());
        let via2 = via.map2(&unit, |s: &bool, _: &()| *s);
        let fallback = state.constant(-1i32);
        let xx = x.clone();
        let v = via2.bind(move |s: &bool| if *s { xx.clone() } else { fallback.clone() });
        (Some(via), Some(v))
    } else {
        (None, None)
    };
    Real { obs_x: None, obs_d: None, pins, pin_driver, cand_a: a.watch(), cand_b: b.watch(), a, b, k, sel: sel_var, outer: outer_var, sw: sw_var, m, t, via, v, x, d, state }
}

// ---------------------------------------------------------------------------------------
// reference model

#[derive(Clone, Debug)]
struct Model {
    a: i32,
    b: i32,
    k: i32,
    bind_ran: bool,
    k_at_run: i32,
    gen: u32,
    kv: i32,
    mult: Vec<u8>,
    tok: u8,
    inval: bool,
    outer: usize,
    outer_gen: u32,
    sw: usize,
    /// Some(false) = created, Some(true) = has been through a stabilise
    obs_x: Option<bool>,
    obs_d: Option<bool>,
    /// the expert node was needed by a live observer at the last stabilise
    nec: bool,
    /// reference: the expert node is invalid because it was recomputed over an invalid dependency
    x_invalid: bool,
    /// `invalidate` was called on it
    x_invalidated: bool,
    /// became observed again, no recompute seen since
    reobs_pending: bool,
    /// the previous action was a stabilise in which make_stale was called
    stale_prev: bool,
    /// make_stale was called while the expert node was not needed; its recompute is still due
    stale_pending: bool,
    removed_stale_child: bool,
    /// `via` programs: value of the via var
    via: bool,
}

impl Model {
    fn val(&self, c: Cand) -> i32 {
        match c {
            Cand::A => self.a,
            Cand::B => self.b,
            Cand::M => self.a + 100,
            Cand::Inner => self.b + 1000 * self.kv,
            Cand::Fresh => self.a + 500,
            Cand::T => self.b,
        }
    }
    fn x_dead(&self) -> bool {
        self.x_invalid || self.x_invalidated
    }
}

/// A `Var<Incr<i32>>` prints its value with `Debug`, which spells out the node behind the
/// `Incr` with its raw id and raw timestamps. Rewrite `Incr { node: Node { id: N, .. } }` to
/// `Incr(#N)` so that `canonicalise_dump` ranks the id like every other node id.
fn abbreviate_incr_values(dump: &str) -> String {
    const PAT: &str = "Incr { node: Node { id: ";
    let mut out = String::with_capacity(dump.len());
    let mut rest = dump;
    while let Some(at) = rest.find(PAT) {
        out.push_str(&rest[..at]);
        let after = &rest[at + PAT.len()..];
        let digits: String = after.chars().take_while(|c| c.is_ascii_digit()).collect();
        // skip to the brace closing `Incr {`
        let mut depth = 0i32;
        let mut end = rest.len();
        for (i, c) in rest[at..].char_indices() {
            match c {
                '{' => depth += 1,
                '}' => {
                    depth -= 1;
                    if depth == 0 {
                        end = at + i + 1;
                        break;
                    }
                }
                _ => {}
            }
        }
        out.push_str(&format!("Incr(#{digits})"));
        rest = &rest[end..];
    }
    out.push_str(rest);
    out
}

// ---------------------------------------------------------------------------------------
// the world

pub struct ExpertWorld {
    prog: Rc<Prog>,
    cfg: Cfg,
    real: Option<Real>,
    h: H,
    model: Model,
    dead: bool,
    obs_hash: u64,
    counters: Counters,
    explain: String,
}

fn viol(rule: &'static str, sig: impl Into<String>, detail: impl Into<String>) -> Violation {
    Violation::new("C14", rule, sig, detail)
}

impl ExpertWorld {
    fn note(&mut self, k: &'static str) {
        *self.counters.entry(k).or_insert(0) += 1;
    }

    fn cons_name(&self) -> &'static str {
        match self.prog.cons {
            Cons::Join => "join",
            Cons::Bind => "bind",
            Cons::Sum => "sum",
        }
    }

    fn exec_real(&mut self, a: &Act) {
        let prog = self.prog.clone();
        let h = self.h.clone();
        let r = self.real.as_mut().expect("world was built");
        match a {
            Act::Stabilise => r.state.stabilise(),
            Act::ObsX => r.obs_x = Some(if prog.via { r.v.as_ref().unwrap().observe() } else { r.x.observe() }),
            Act::DropX => r.obs_x = None,
            Act::ObsD => r.obs_d = Some(r.d.observe()),
            Act::DropD => r.obs_d = None,
            Act::Toggle(0) => r.a.set(if r.a.get() == 1 { 2 } else { 1 }),
            Act::Toggle(1) => r.b.set(if r.b.get() == 10 { 20 } else { 10 }),
            Act::Toggle(_) => r.k.set(if r.k.get() == 1 { 2 } else { 1 }),
            Act::SetMult(i, m) => {
                let sel = r.sel.as_ref().unwrap();
                let mut v = sel.get();
                v.mult[*i as usize] = *m;
                sel.set(v);
            }
            Act::Stale => {
                let sel = r.sel.as_ref().unwrap();
                let mut v = sel.get();
                v.tok ^= 1;
                sel.set(v);
            }
            Act::Inval => {
                let sel = r.sel.as_ref().unwrap();
                let mut v = sel.get();
                v.inval = true;
                sel.set(v);
            }
            Act::SetOuter(i) => {
                let c = prog.cands[*i as usize];
                let mut gen = 0;
                let node = match c {
                    Cand::A => r.cand_a.clone(),
                    Cand::B => r.cand_b.clone(),
                    Cand::M => r.m.clone(),
                    Cand::T => r.t.clone().unwrap(),
                    Cand::Inner => {
                        let hb = h.borrow();
                        let (g, n) = hb.stash.as_ref().expect("SetOuter(inner) enabled only after the bind ran");
                        gen = *g;
                        n.clone()
                    }
                    Cand::Fresh => unreachable!(),
                };
                h.borrow_mut().outer_id = Some(ChildId { cand: c, gen });
                r.outer.as_ref().unwrap().set(node);
            }
            Act::SetSw(i) => r.sw.as_ref().unwrap().set(*i as i32),
            Act::ToggleVia => {
                let via = r.via.as_ref().unwrap();
                via.set(!via.get());
            }
        }
    }

    fn exec_model(&mut self, a: &Act) {
        let m = &mut self.model;
        match a {
            Act::Stabilise => {}
            Act::ObsX => m.obs_x = Some(false),
            Act::DropX => m.obs_x = None,
            Act::ObsD => m.obs_d = Some(false),
            Act::DropD => m.obs_d = None,
            Act::Toggle(0) => m.a = if m.a == 1 { 2 } else { 1 },
            Act::Toggle(1) => m.b = if m.b == 10 { 20 } else { 10 },
            Act::Toggle(_) => m.k = if m.k == 1 { 2 } else { 1 },
            Act::SetMult(i, v) => m.mult[*i as usize] = *v,
            Act::Stale => m.tok ^= 1,
            Act::Inval => m.inval = true,
            Act::SetOuter(i) => {
                m.outer = *i as usize;
                m.outer_gen = m.gen;
            }
            Act::SetSw(i) => m.sw = *i as usize,
            Act::ToggleVia => m.via = !m.via,
        }
    }

    /// reference value of the construction (None = reference says invalid / not judged)
    fn reference(&self) -> i32 {
        let m = &self.model;
        match self.prog.cons {
            Cons::Sum => self.prog.cands.iter().enumerate().map(|(i, c)| m.mult[i] as i32 * m.val(*c)).sum(),
            Cons::Join => m.val(self.prog.cands[m.outer]),
            Cons::Bind => m.val(self.prog.cands[m.sw]),
        }
    }

    fn read(o: &Option<Observer<i32>>) -> Option<Result<i32, ObsErr>> {
        o.as_ref().map(|o| o.try_get_value().map_err(|e| ObsErr::from_real(&e)))
    }

    /// everything that happens at a Stabilise after the engine returned: advance the reference,
    /// judge the log and the observers
    fn after_stabilise(&mut self, log: &[Ev], vs: &mut Vec<Violation>) {
        let prog = self.prog.clone();
        let cons = self.cons_name();
        // ---- reference
        let nec_before = self.model.nec;
        let stale_prev = self.model.stale_prev;
        let mut legit_invalid = false;
        {
            let m = &mut self.model;
            if let Some(o) = m.obs_x.as_mut() {
                *o = true;
            }
            if let Some(o) = m.obs_d.as_mut() {
                *o = true;
            }
            m.nec = (m.obs_x.is_some() && (!prog.via || m.via)) || m.obs_d.is_some();
            let via_x = m.nec && !m.x_dead() && prog.cons != Cons::Join;
            let bind_nec = prog.has_inner() && (prog.pin_bnd || via_x);
            if bind_nec && (!m.bind_ran || m.k != m.k_at_run) {
                m.gen += 1;
                m.kv = m.k;
                m.k_at_run = m.k;
                m.bind_ran = true;
            }
            if m.nec && !nec_before {
                m.reobs_pending = true;
            }
            if m.nec && !m.x_dead() && prog.cons == Cons::Join && prog.cands[m.outer] == Cand::Inner && m.outer_gen != m.gen {
                // a join over a node that has been invalidated is invalid, for good
                m.x_invalid = true;
                legit_invalid = true;
            }
        }
        if legit_invalid {
            self.note("join_over_invalidated_node");
        }
        let hgen = self.h.borrow().gen;
        if hgen != self.model.gen {
            // The regular bind `k.bind(..)` of the harness graph is an ordinary node: it must run exactly when it is needed
            // (through its pinned observer or through the expert node) and k changed. A disagreement is the engine's
            // (C05: ran although nothing needs it / nothing changed; C01: did not re-run), not this check's business
            // (C14 / C11): it is filed under those properties ("seen, not judged here") and the history is abandoned,
            // because the C14 monitors below are only meaningful while the reference tracks the bind (found with seed
            // C11-f, where the first version filed it as a machinery error and so hid the audit findings of the run).
            let (prop, rule) = if hgen > self.model.gen { ("C05", "C05.expert_world:regular_bind_ran_unneeded") } else { ("C01", "C01.expert_world:regular_bind_not_rerun") };
            vs.push(Violation::new(prop, rule, cons, format!("regular bind ran {hgen} times, reference expected {}", self.model.gen)));
            self.model.gen = hgen;
            self.dead = true;
            self.explain = format!("log: {log:?}");
            return;
        }
        // ---- the log
        let mut recomputes = 0usize;
        // runs of the expert node logged after the (last) make_stale call of this stabilise
        let mut recomputes_after_stale = 0usize;
        let mut stale_called = false;
        let mut inval_called = false;
        let mut at_prev_override: Vec<(u32, i32)> = vec![];
        for ev in log {
            match ev {
                Ev::Remove { pos, of, child_stale_gen, .. } => {
                    if *child_stale_gen {
                        self.model.removed_stale_child = true;
                        self.note("removed_dep_on_invalidated_child");
                    }
                    if *of > 1 {
                        self.note(if *pos == 0 {
                            "removed_first_of_duplicates"
                        } else if *pos + 1 == *of {
                            "removed_last_of_duplicates"
                        } else {
                            "removed_middle_of_duplicates"
                        });
                    } else {
                        self.note("removed_single_dep");
                    }
                }
                Ev::LhsRun { same, removed_stale_gen } => {
                    if *removed_stale_gen {
                        self.model.removed_stale_child = true;
                        self.note("removed_dep_on_invalidated_child");
                    }
                    self.note(if *same { "bind_same_rhs" } else { "lhs_switched" });
                }
                Ev::Add { .. } => self.note("added_dep"),
                Ev::Cb { .. } => self.note("edge_callbacks"),
                Ev::CbOrphan { .. } => self.note("orphan_callbacks"),
                Ev::FreshMade => self.note("fresh_rhs_created"),
                Ev::MakeStale => {
                    stale_called = true;
                    recomputes_after_stale = 0;
                    self.note("make_stale_called");
                }
                Ev::Invalidate => {
                    inval_called = true;
                    self.note("invalidate_called");
                }
                Ev::Oops(what) => vs.push(Violation::new("MACHINERY", "machinery", "harness", what.to_string())),
                Ev::Recompute { snap, .. } => {
                    recomputes += 1;
                    recomputes_after_stale += 1;
                    self.note("expert_recomputes");
                    if prog.cons == Cons::Sum {
                        let reobs = self.model.reobs_pending;
                        for s in snap {
                            if s.child.cand == Cand::Inner && s.child.gen != self.model.gen {
                                // dependency on an invalidated node at recompute time: cannot happen
                                // in this construction when the engine is right; value oracle decides
                                continue;
                            }
                            let cur = self.model.val(s.child.cand);
                            let at_prev = at_prev_override.iter().rev().find(|o| o.0 == s.edge).map(|o| Some(o.1)).unwrap_or_else(|| self.h.borrow().edges.iter().find(|e| e.id == s.edge).and_then(|e| e.at_prev));
                            let why = if s.added_since {
                                Some("added")
                            } else if reobs {
                                Some("reobserved")
                            } else if at_prev != Some(cur) {
                                Some("changed")
                            } else {
                                None
                            };
                            if let Some(why) = why {
                                *self.counters.entry("callbacks_required").or_insert(0) += 1;
                                match s.last_cb {
                                    None => vs.push(viol("C14.callback_missing", why, format!("{cons}: dependency on {:?} ({why} since the previous recompute, child value {cur}) had no callback before the expert node ran; slot={:?}", s.child, s.slot))),
                                    Some(v) if v != cur => vs.push(viol("C14.callback_stale", why, format!("{cons}: last callback of dependency on {:?} ({why}) carried {v}, child's value is {cur}", s.child))),
                                    Some(_) => {}
                                }
                            }
                            at_prev_override.push((s.edge, cur));
                        }
                        self.model.reobs_pending = false;
                    } else {
                        self.model.reobs_pending = false;
                    }
                }
                _ => {}
            }
        }
        {
            let mut hb = self.h.borrow_mut();
            for (id, v) in at_prev_override.iter() {
                if let Some(e) = hb.edges.iter_mut().find(|e| e.id == *id) {
                    e.at_prev = Some(*v);
                }
            }
        }
        if inval_called {
            self.model.x_invalidated = true;
        }
        // ---- observers
        let r = self.real.as_ref().unwrap();
        let reads = [("X", Self::read(&r.obs_x), 0), ("D", Self::read(&r.obs_d), 1)];
        let expect = self.reference();
        let m = &self.model;
        let mut wedged = false;
        // the dependant is a plain map over the expert node: when the expert node's own observer
        // already shows the failure (or nobody observes it directly) the cause signature names the
        // expert node; "dependant_only" is kept for D wrong while X reads right
        let x_ok = match &reads[0].1 {
            Some(got) => *got == Ok(expect),
            None => false,
        };
        let x_judged_bad = reads[0].1.is_some() && !x_ok;
        for (which, got, plus) in reads.iter() {
            let Some(got) = got else { continue };
            self.obs_hash = hash64(&(self.obs_hash, which, got));
            if m.x_invalidated {
                if *got != Err(ObsErr::ObservingInvalid) {
                    vs.push(viol("C14.invalidate", format!("{cons}:{which}"), format!("invalidate was called on the expert node, observer of {which} reads {got:?}")));
                }
            } else if m.x_invalid {
                // recomputed over an invalidated dependency: invalid by the engine's own rules; not judged
            } else {
                let want = if prog.via && *which == "X" && !m.via { -1 } else { expect + plus };
                let scope = if *which == "D" && x_ok { ":dependant_only" } else { "" };
                match got {
                    Ok(v) if *v == want => {}
                    Err(ObsErr::ObservingInvalid) => {
                        wedged = true;
                        if *which == "D" && x_judged_bad {
                            continue; // already reported on the expert node itself
                        }
                        let sig = format!("{cons}{scope}:invalid{}", if m.removed_stale_child { ":after_removing_dep_on_invalidated_child" } else { "" });
                        vs.push(viol("C14.wedged", sig, format!("observer of {which} reads ObservingInvalid, reference says valid with value {want}")));
                    }
                    other => {
                        if *which == "D" && x_judged_bad {
                            continue;
                        }
                        let sig = format!("{cons}{scope}:{}", if recomputes == 0 { "not_recomputed" } else { "recomputed_wrong" });
                        vs.push(viol("C14.value", sig, format!("observer of {which} reads {other:?}, reference {want} (expert node ran {recomputes} times in this stabilise)")));
                    }
                }
            }
        }
        // ---- make_stale (not judged on a node that just turned out to be wrongly invalid: that is
        // the wedge reported above, not a second defect)
        let pending_before = self.model.stale_pending;
        if stale_called && !self.model.x_dead() && !wedged {
            if !self.model.nec && nec_before && recomputes_after_stale > 0 {
                // `via` programs: the node was needed when the stabilise began, ran after the call, and was dropped by the
                // regular bind above it only later in the same stabilise: the forced recompute has happened
                self.note("make_stale_served_before_unneeded");
            } else if !self.model.nec {
                // called while nobody needs the expert node (its driver is kept running by an observer of its own):
                // the one recompute it forces is due at the first stabilise in which the node is needed again
                self.model.stale_pending = true;
                self.note("make_stale_called_while_unneeded");
            } else if recomputes != 1 {
                vs.push(viol("C14.make_stale", if recomputes == 0 { "no_recompute" } else { "several_recomputes" }, format!("{cons}: make_stale was called in this stabilise, the expert node ran {recomputes} times")));
            }
        }
        if pending_before && self.model.nec && !self.model.x_dead() && !wedged {
            if recomputes != 1 {
                vs.push(viol("C14.make_stale", "lost_while_unobserved", format!("{cons}: make_stale was called while the expert node was not needed; in the first stabilise in which it is needed again it ran {recomputes} times instead of once")));
            }
            self.model.stale_pending = false;
        }
        if stale_prev && !self.model.x_dead() && !wedged && recomputes != 0 {
            vs.push(viol("C14.make_stale", "repeats", format!("{cons}: nothing happened since the stabilise in which make_stale was called, yet the expert node ran again ({recomputes} times)")));
        }
        self.model.stale_prev = stale_called && self.model.nec && !self.model.x_dead();
        if wedged {
            // the node is gone for good: nothing more to learn along this history
            self.dead = true;
        }
        self.explain = format!("log: {log:?}; reads: {reads:?}; reference: {expect}");
    }
}

impl World for ExpertWorld {
    type Prog = Prog;
    type Action = Act;

    fn new(prog: &Prog, cfg: &Cfg) -> Self {
        incremental::verif_knobs::set_handler_order(cfg.handler_order);
        let h: H = Rc::new(RefCell::new(Harness::default()));
        let built = {
            let h2 = h.clone();
            let p2 = prog.clone();
            catch(move || build(&p2, &h2))
        };
        let model = Model {
            a: 1,
            b: 10,
            k: 1,
            bind_ran: false,
            k_at_run: 0,
            gen: 0,
            kv: 0,
            mult: if prog.cons == Cons::Sum { prog.init.clone() } else { vec![] },
            tok: 0,
            inval: false,
            outer: if prog.cons == Cons::Join { prog.init[0] as usize } else { 0 },
            outer_gen: 0,
            sw: if prog.cons == Cons::Bind { prog.init[0] as usize } else { 0 },
            obs_x: None,
            obs_d: None,
            nec: false,
            x_invalid: false,
            x_invalidated: false,
            reobs_pending: false,
            stale_prev: false,
            stale_pending: false,
            removed_stale_child: false,
            via: true,
        };
        let (real, dead, explain) = match built {
            Ok(r) => (Some(r), false, String::new()),
            Err(p) => (None, true, format!("PANIC while building at {}: {}", p.short_location(), p.first_line())),
        };
        h.borrow_mut().log.clear();
        ExpertWorld { prog: Rc::new(prog.clone()), cfg: cfg.clone(), real, h, model, dead, obs_hash: 0, counters: Counters::new(), explain }
    }

    fn enabled(&self) -> Vec<Act> {
        let p = &self.prog;
        let m = &self.model;
        let mut out = vec![Act::Stabilise];
        if m.obs_x.is_none() {
            out.push(Act::ObsX);
        }
        for t in p.toggles.iter() {
            out.push(Act::Toggle(*t));
        }
        match p.cons {
            Cons::Sum => {
                for (i, _) in p.cands.iter().enumerate() {
                    for v in 0..=p.max_mult {
                        if v != m.mult[i] {
                            out.push(Act::SetMult(i as u8, v));
                        }
                    }
                }
            }
            Cons::Join => {
                for (i, c) in p.cands.iter().enumerate() {
                    match c {
                        Cand::Inner => {
                            if m.bind_ran && (m.outer != i || m.outer_gen != m.gen) {
                                out.push(Act::SetOuter(i as u8));
                            }
                        }
                        _ => {
                            if m.outer != i {
                                out.push(Act::SetOuter(i as u8));
                            }
                        }
                    }
                }
            }
            Cons::Bind => {
                for (i, _) in p.cands.iter().enumerate() {
                    if m.sw != i {
                        out.push(Act::SetSw(i as u8));
                    }
                }
            }
        }
        if m.obs_x.is_some() && !p.no_drop {
            out.push(Act::DropX);
        }
        if p.obs_d {
            if m.obs_d.is_none() {
                out.push(Act::ObsD);
            } else {
                out.push(Act::DropD);
            }
        }
        if p.via {
            out.push(Act::ToggleVia);
        }
        if p.cons == Cons::Sum {
            if p.stale {
                out.push(Act::Stale);
            }
            if p.inval && !m.inval {
                out.push(Act::Inval);
            }
        }
        out
    }

    fn step(&mut self, a: &Act, check: bool) -> Vec<Violation> {
        let mut vs = vec![];
        self.explain.clear();
        if self.real.is_none() {
            self.dead = true;
            return vec![viol("C14.panic", "build", "building the construction panicked".to_string())];
        }
        incremental::verif_knobs::set_handler_order(self.cfg.handler_order);
        self.h.borrow_mut().log.clear();
        let res = {
            let this = &mut *self;
            catch(move || this.exec_real(a))
        };
        let log: Vec<Ev> = match self.h.try_borrow_mut() {
            Ok(mut hb) => std::mem::take(&mut hb.log),
            Err(_) => vec![],
        };
        if let Err(p) = res {
            self.dead = true;
            self.explain = format!("PANIC at {}: {}; log: {log:?}", p.short_location(), p.first_line());
            vs.push(viol("C14.panic", format!("{}@{}", a.kind(), p.short_location()), format!("{}: {a:?} panicked at {}: {}", self.cons_name(), p.short_location(), p.first_line())));
            return if check { vs } else { vec![] };
        }
        self.exec_model(a);
        if *a == Act::Stabilise {
            self.after_stabilise(&log, &mut vs);
        } else {
            self.model.stale_prev = false;
            if !log.is_empty() {
                // not a C14 matter, but it would invalidate the reasoning of the monitors
                self.note("closures_ran_outside_stabilise");
            }
            self.explain = format!("log: {log:?}");
        }
        if check {
            vs
        } else {
            vec![]
        }
    }

    fn canon(&self) -> Option<String> {
        let r = self.real.as_ref()?;
        let mut s = r.state.verif_dump();
        let hb = self.h.borrow();
        let m = &self.model;
        s.push_str("HARNESS ");
        // which public observer handle is which (new observers are listed without their node)
        if let Some(o) = &r.obs_x {
            s.push_str(&format!("hx=o{} ", o.verif_id()));
        }
        if let Some(o) = &r.obs_d {
            s.push_str(&format!("hd=o{} ", o.verif_id()));
        }
        match &hb.stash {
            Some((g, n)) => s.push_str(&format!("stash=#{} cur={} ", n.verif_id(), (*g == hb.gen) as u8)),
            None => s.push_str("stash=- "),
        }
        for e in hb.edges.iter() {
            let gen = if e.child.cand == Cand::Inner { if e.child.gen == hb.gen { "cur" } else { "old" } } else { "" };
            s.push_str(&format!("E[{}{} slot={:?} cb={:?} added={} prev={:?}] ", e.child.cand.code(), gen, e.slot, e.last_cb, e.added_since as u8, e.at_prev));
        }
        s.push_str(&format!("tok={} inval={} ", hb.seen_tok, hb.seen_inval as u8));
        if let Some((c, _)) = &hb.prev {
            let gen = if c.cand == Cand::Inner { if c.gen == hb.gen { "cur" } else { "old" } } else { "" };
            s.push_str(&format!("prev={}{} ", c.cand.code(), gen));
        }
        s.push_str(&format!(
            "\nMODEL a={} b={} k={} ran={} kat={} kv={} mult={:?} tok={} inval={} outer={} outercur={} sw={} ox={:?} od={:?} nec={} xi={} xd={} reobs={} sp={} rs={}\n",
            m.a,
            m.b,
            m.k,
            m.bind_ran as u8,
            m.k_at_run,
            m.kv,
            m.mult,
            m.tok,
            m.inval as u8,
            m.outer,
            (m.outer_gen == m.gen) as u8,
            m.sw,
            m.obs_x,
            m.obs_d,
            m.nec as u8,
            m.x_invalid as u8,
            m.x_invalidated as u8,
            m.reobs_pending as u8,
            m.stale_prev as u8,
            m.removed_stale_child as u8
        ));
        s.push_str(&format!(" sp{} via{}", m.stale_pending as u8, m.via as u8));
        let s = abbreviate_incr_values(&s);
        Some(canonicalise_dump(&s))
    }

    fn dead(&self) -> bool {
        self.dead
    }

    fn observation_hash(&self) -> u64 {
        self.obs_hash
    }

    fn take_counters(&mut self) -> Counters {
        std::mem::take(&mut self.counters)
    }

    fn teardown(self) {
        let _ = catch(move || drop(self));
    }

    fn prog_json(p: &Prog) -> Json {
        p.to_json()
    }
    fn prog_from_json(j: &Json) -> Option<Prog> {
        Prog::from_json(j)
    }
    fn action_json(a: &Act) -> Json {
        a.to_json()
    }
    fn action_from_json(j: &Json) -> Option<Act> {
        Act::from_json(j)
    }
    fn audit(&self) -> Vec<String> {
        self.real.as_ref().map_or(vec![], |r| r.state.verif_audit())
    }
    fn explain_last(&self) -> String {
        self.explain.clone()
    }
}
