//! expert-node world (C14)
//!
//! Three constructions written with `incremental::expert` (see `world.rs`): `join` and `bind`
//! exactly as in `/repo/tests/expert.rs`, and a *dynamic sum* whose dependencies (with
//! multiplicity) are selected by a var and maintained by a selector Map node that is the
//! expert node's static dependency. Candidate children: var watch nodes (a, b), a shared map
//! node (m = a+100) and the node created inside a regular `bind` over var k (invalidatable).
//!
//! Families (`hx dev expert <family> <depth> [congruence=3]`); every program is one unit; the
//! program lists do not depend on the tier, tiers differ by depth. Measured single-core (`dev`),
//! release profile, unfixed engine (dbg within 10 %); "max unit" = slowest single unit, i.e. the
//! wall-clock floor when units are spread over workers:
//!
//! | family | units | what                                                        | quick depth: states / transitions / core-s (max unit) | thorough depth: states / transitions / core-s (max unit) |
//! |--------|-------|-------------------------------------------------------------|--------------------------------------------------------|-----------------------------------------------------------|
//! | `sum`  | 10    | dynamic sum: duplicates with first / middle / last removal, shared + invalidatable children, make_stale, invalidate, dependant | 8: 440 k / 1.06 M / 40-55 s (12 s) | 11: 10.2 M / 28.8 M / ~3 500 s (570 s) |
//! | `join` | 3     | tests/expert.rs join over Var<Incr>, incl. invalidatable rhs | 9: 288 k / 634 k / 28-38 s (22 s)   | 11: 2.2 M / 5.5 M / ~680 s (510 s)     |
//! | `bind` | 3     | tests/expert.rs bind, rhs pre-existing / bind-made / fresh   | 10: 326 k / 784 k / 33-40 s (18 s)  | 12: 1.7 M / 4.4 M / ~800 s (350 s)     |
//! | `wide` | 6     | the same constructions with 4-5 candidates and full alphabets | (not in quick) 6: 210 k / 502 k / 18 s | 7: 1.06 M / 2.5 M / 120 s (60 s); depth 8 hits the 3 M state cap in one unit (use split_first) |
//! | `all`  | 16    | join + bind + sum                                            | 8                                                      | 10                                                        |
//!
//! Quick = `sum` 8 + `join` 9 + `bind` 10 in both profiles: about 270 core-s, i.e. 20-30 s on
//! 16 workers. Run with pruning (all closure state is harness-owned and part of `canon()`);
//! `congruence=3` reports no MACHINERY line on any family.
//!
//! Oracle rules (all property C14): C14.value, C14.wedged, C14.callback_missing,
//! C14.callback_stale, C14.make_stale, C14.invalidate, C14.panic - see `world.rs` for their
//! exact meaning and the deliberate slack.
//!
//! Entry points used by `plan.rs` (keep these four signatures).

mod world;

use crate::core::{Cfg, Violation};
use crate::explore::{Marker, Stats};
use crate::plan::{JobDef, Tier};
use serde_json::Value as Json;
use std::time::Instant;
use world::{Cand, Cons, ExpertWorld, Pick, Prog};

fn base(name: &str, cons: Cons, cands: &[Cand]) -> Prog {
    Prog {
        name: name.to_string(),
        cons,
        cands: cands.to_vec(),
        max_mult: 2,
        pick: Pick::First,
        add_first: true,
        init: match cons {
            Cons::Sum => vec![0; cands.len()],
            _ => vec![0],
        },
        pin_m: false,
        pin_bnd: false,
        pin_driver: false,
        toggles: vec![],
        stale: false,
        inval: false,
        obs_d: false,
        via: false,
        no_drop: false,
    }
}

pub fn programs(family: &str, tier: Tier) -> Vec<Prog> {
    use Cand::*;
    // the program lists do not depend on the tier: tiers differ by depth (table above)
    let _ = tier;
    let wide = family == "wide";
    let mut out = vec![];
    if family == "join" || family == "all" {
        // pre-existing nodes only
        let mut p = base("join/am", Cons::Join, &[A, M]);
        p.toggles = vec![0];
        p.obs_d = true;
        out.push(p);
        // invalidatable rhs; the regular bind is kept necessary by a pinned observer
        let mut p = base("join/ai", Cons::Join, &[A, Inner]);
        p.toggles = vec![2, 1];
        p.pin_bnd = true;
        out.push(p);
        let mut p = base("join/ami+d", Cons::Join, &[A, M, Inner]);
        p.toggles = vec![2, 0];
        p.pin_bnd = true;
        p.pin_m = true;
        p.obs_d = true;
        out.push(p);
    }
    if family == "driver" || family == "all" {
        // the driver node keeps running while the expert node is unobserved
        let mut p = base("join/am-driver", Cons::Join, &[A, M]);
        p.toggles = vec![0];
        p.obs_d = true;
        p.pin_driver = true;
        out.push(p);
        let mut p = base("bind/amf-driver", Cons::Bind, &[A, M, Fresh]);
        p.toggles = vec![0];
        p.pin_driver = true;
        out.push(p);
        let mut p = base("sum/ab-driver", Cons::Sum, &[A, B]);
        p.toggles = vec![0];
        p.pick = Pick::First;
        p.pin_driver = true;
        out.push(p);
        // make_stale requested while the expert node is unobserved (after seed C14-d)
        let mut p = base("sum/ab-driver-stale", Cons::Sum, &[A, B]);
        p.max_mult = 1;
        p.toggles = vec![0];
        p.stale = true;
        p.pin_driver = true;
        p.init = vec![1, 0];
        out.push(p);
        let mut p = base("sum/am-driver-last", Cons::Sum, &[A, M]);
        p.toggles = vec![0];
        p.pick = Pick::Last;
        p.add_first = false;
        p.pin_driver = true;
        p.obs_d = true;
        out.push(p);
    }
    if family == "via" || family == "all" {
        // the expert node is needed only through a regular bind that can switch away from it in mid-stabilise, after
        // the driver has already changed the dependencies / called make_stale (after seed C14-e)
        let mut p = base("join/at-via", Cons::Join, &[A, T]);
        p.toggles = vec![1];
        p.via = true;
        out.push(p);
        let mut p = base("sum/at-via-stale", Cons::Sum, &[A, T]);
        p.max_mult = 1;
        p.toggles = vec![0];
        p.stale = true;
        p.via = true;
        p.init = vec![1, 1];
        out.push(p);
        let mut p = base("sum/at-via", Cons::Sum, &[A, T]);
        p.max_mult = 1;
        p.toggles = vec![1];
        p.via = true;
        p.init = vec![1, 0];
        out.push(p);
        let mut p = base("bind/atf-via", Cons::Bind, &[A, T, Fresh]);
        p.toggles = vec![0];
        p.via = true;
        out.push(p);
        let mut p = base("sum/at-via-dup+d", Cons::Sum, &[A, T]);
        p.toggles = vec![];
        p.via = true;
        p.obs_d = true;
        p.init = vec![0, 1];
        out.push(p);
    }
    if family == "via-inner" || family == "all-deep" {
        // focused programs (3-4 symbols, observer never dropped): the only dependency is the invalidatable node of a
        // pinned regular bind, the expert node sits above the switch of V, so "k toggles and V switches away in one
        // stabilise" leaves it unneeded with an invalidated, still listed dependency (after seed C14-f)
        let mut p = base("bind/i-via-pinned", Cons::Bind, &[Inner]);
        p.toggles = vec![2];
        p.via = true;
        p.pin_bnd = true;
        p.no_drop = true;
        out.push(p);
        let mut p = base("sum/i-via-pinned", Cons::Sum, &[Inner]);
        p.max_mult = 1;
        p.init = vec![1];
        p.toggles = vec![2];
        p.via = true;
        p.pin_bnd = true;
        p.no_drop = true;
        out.push(p);
        let mut p = base("sum/ii-via-pinned", Cons::Sum, &[Inner]);
        p.max_mult = 2;
        p.init = vec![2];
        p.toggles = vec![2];
        p.via = true;
        p.pin_bnd = true;
        p.no_drop = true;
        out.push(p);
    }
    if wide {
        {
            let mut p = base("join/abmi", Cons::Join, &[A, B, M, Inner]);
            p.toggles = vec![0, 1, 2];
            p.pin_bnd = true;
            p.obs_d = true;
            out.push(p);
        }
    }
    if family == "bind" || family == "all" {
        let mut p = base("bind/amf", Cons::Bind, &[A, M, Fresh]);
        p.toggles = vec![0];
        p.obs_d = true;
        out.push(p);
        let mut p = base("bind/ai", Cons::Bind, &[A, Inner]);
        p.toggles = vec![2, 1];
        out.push(p);
        let mut p = base("bind/ifm-pinned", Cons::Bind, &[Inner, Fresh, M]);
        p.toggles = vec![2, 0];
        p.pin_bnd = true;
        p.pin_m = true;
        out.push(p);
    }
    if wide {
        {
            let mut p = base("bind/abmif", Cons::Bind, &[A, B, M, Inner, Fresh]);
            p.toggles = vec![0, 1, 2];
            p.obs_d = true;
            out.push(p);
        }
    }
    if family == "sum" || family == "all" {
        // duplicates on plain vars; every removal position
        for (pick, add_first) in [(Pick::First, true), (Pick::Last, false)] {
            let mut p = base(&format!("sum/ab-dup-{pick:?}"), Cons::Sum, &[A, B]);
            p.pick = pick;
            p.add_first = add_first;
            p.toggles = vec![0];
            out.push(p);
        }
        let mut p = base("sum/a-dup3-middle", Cons::Sum, &[A, B]);
        p.max_mult = 3;
        p.pick = Pick::Middle;
        p.toggles = vec![0];
        out.push(p);
        // shared, already computed child
        let mut p = base("sum/am-shared", Cons::Sum, &[A, M]);
        p.pin_m = true;
        p.pick = Pick::Last;
        p.toggles = vec![0];
        p.obs_d = true;
        out.push(p);
        // invalidatable child, bind necessary only through the expert node
        let mut p = base("sum/ai", Cons::Sum, &[A, Inner]);
        p.toggles = vec![2, 1];
        out.push(p);
        // invalidatable child, bind pinned (is invalidated while the expert node is unobserved)
        let mut p = base("sum/ai-pinned", Cons::Sum, &[A, Inner]);
        p.pin_bnd = true;
        p.toggles = vec![2];
        p.pick = Pick::Last;
        p.add_first = false;
        out.push(p);
        let mut p = base("sum/i-dup-pinned", Cons::Sum, &[Inner]);
        p.pin_bnd = true;
        p.toggles = vec![2, 1];
        p.init = vec![1];
        out.push(p);
        // make_stale / invalidate with a dependant
        let mut p = base("sum/a-stale-inval", Cons::Sum, &[A]);
        p.max_mult = 1;
        p.toggles = vec![0];
        p.stale = true;
        p.inval = true;
        p.obs_d = true;
        p.init = vec![1];
        out.push(p);
        let mut p = base("sum/ami-1", Cons::Sum, &[A, M, Inner]);
        p.max_mult = 1;
        p.toggles = vec![0, 2];
        p.stale = true;
        out.push(p);
        let mut p = base("sum/mi-inval", Cons::Sum, &[M, Inner]);
        p.max_mult = 1;
        p.toggles = vec![2];
        p.inval = true;
        p.obs_d = true;
        p.init = vec![1, 1];
        out.push(p);
    }
    if wide {
        {
            let mut p = base("sum/abmi-dup", Cons::Sum, &[A, B, M, Inner]);
            p.toggles = vec![0, 1, 2];
            p.pin_m = true;
            p.obs_d = true;
            out.push(p);
            let mut p = base("sum/ai-dup-all", Cons::Sum, &[A, Inner]);
            p.toggles = vec![0, 1, 2];
            p.stale = true;
            p.inval = true;
            p.obs_d = true;
            p.pick = Pick::Last;
            out.push(p);
            let mut p = base("sum/am-dup3", Cons::Sum, &[A, M]);
            p.max_mult = 3;
            p.pick = Pick::Middle;
            p.add_first = false;
            p.toggles = vec![0];
            p.stale = true;
            out.push(p);
            let mut p = base("sum/ai-pinned-dup-first", Cons::Sum, &[A, Inner]);
            p.pin_bnd = true;
            p.toggles = vec![2, 1];
            p.obs_d = true;
            out.push(p);
        }
    }
    out
}

pub fn units(job: &JobDef, tier: Tier) -> usize {
    crate::driver::units::<ExpertWorld>(&programs(&job.family, tier), job)
}

pub fn run_unit(job: &JobDef, job_ix: u32, unit: usize, tier: Tier, deadline: Option<Instant>, marker: &Marker, stats: &mut Stats) {
    let progs = programs(&job.family, tier);
    if progs.is_empty() {
        stats.machinery_errors.push(format!("expert world: unknown family {}", job.family));
        return;
    }
    crate::driver::run_unit::<ExpertWorld>(&progs, job, job_ix, unit, deadline, marker, stats)
}

pub fn replay(cfg: &Cfg, prog: &Json, history: &[Json]) -> Result<(Vec<(usize, Violation)>, Vec<String>, u64), String> {
    crate::driver::replay::<ExpertWorld>(cfg, prog, history)
}

pub fn history_from_choices(job: &JobDef, unit: usize, tier: Tier, choices: &[u16]) -> Option<(Json, Vec<Json>)> {
    crate::driver::history_from_choices::<ExpertWorld>(&programs(&job.family, tier), job, unit, choices)
}
