//! drop-order / leak world (C12)
//!
//! Each program = one catalogue shape (built next to an independent "remaining" graph
//! `var -> map -> observer` on the same state) x an initial condition
//! {`fresh`: never stabilised, `stabilised`: one stabilise after construction, `dirty`:
//! stabilised and then a variable of the shape written} x the number of droppable user handles
//! (the shape's 3-4 base handles padded with extra clones: observer clone, var clone, ...).
//!
//! Shapes (16; `var_of_var` / `var_of_incr` / `var3` are the "var of var (of var)" entries of
//! DESIGN §6): chain, diamond, bind_fresh, bind_own_input, var_of_var, var_of_incr, var3,
//! self_map2, fold_dup, expert_join, expert_zip (expert node with edge callbacks), memo
//! (`weak_memoize_fn`), subscription (callback owning an `Incr`), map_ref, closure_holds_var (node
//! function owning a `Var` handle), shared_var (a second remaining graph hangs off the shape's
//! variable node).
//!
//! Actions: `Drop(i)` for every live handle, `DropState`, and `Stabilise` -- enabled only
//! directly after a drop and only while the state handle is held.  The generic BFS with
//! `canon() == None` (no pruning, E1) therefore enumerates exactly: all permutations of
//! dropping the handles and the state x a stabilise inserted or not after each drop.  The
//! marker is written by the BFS before every history, so an abort (double panic) is attributed.
//! A history is complete at depth `2 * (handles + 1)`; programs exhaust before the bound.
//!
//! Families (`hx dev drops <family> <depth>`); one unit = one program (48 units each):
//!
//! | family                | handles | depth | use      | measured single core (rel; dbg ~1.4x) |
//! |-----------------------|--------:|------:|----------|----------------------------------------|
//! | `c12/catalogue-small` |       4 |    10 | smoke    | 8.8e4 transitions, 1 s                 |
//! | `c12/catalogue`       |       5 |    12 | quick    | 9.0e5 transitions (3.6e5 complete histories), 12 s |
//! | `c12/catalogue-full`  |       6 |    14 | thorough | 1.1e7 transitions, ~180 s              |
//! | `c12/catalogue-7`     |       7 |    16 | thorough, optional | 3.2e6 transitions / 140 s per unit, 48 units (shapes with fewer than 7 available handles use what they have) |
//! | `c12/selftest`        |       3 |     8 | self-test of the oracles: the harness leaks a node on purpose; every complete history must report `C12.leak_*` (not part of a check) | |
//!
//! The `tier` argument is ignored (the family name selects the size).  Oracles: `world.rs`.

pub mod world;

use crate::core::{Cfg, Violation};
use crate::explore::{Marker, Stats};
use crate::plan::{JobDef, Tier};
use serde_json::Value as Json;
use std::time::Instant;
use world::DropsWorld;

pub fn units(job: &JobDef, _tier: Tier) -> usize {
    crate::driver::units::<DropsWorld>(&world::family(&job.family), job)
}

pub fn run_unit(job: &JobDef, job_ix: u32, unit: usize, _tier: Tier, deadline: Option<Instant>, marker: &Marker, stats: &mut Stats) {
    let p = world::family(&job.family);
    if p.is_empty() {
        stats.machinery_errors.push(format!("drops: unknown family {}", job.family));
        return;
    }
    crate::driver::run_unit::<DropsWorld>(&p, job, job_ix, unit, deadline, marker, stats)
}

pub fn replay(cfg: &Cfg, prog: &Json, history: &[Json]) -> Result<(Vec<(usize, Violation)>, Vec<String>, u64), String> {
    crate::driver::replay::<DropsWorld>(cfg, prog, history)
}

pub fn history_from_choices(job: &JobDef, unit: usize, _tier: Tier, choices: &[u16]) -> Option<(Json, Vec<Json>)> {
    crate::driver::history_from_choices::<DropsWorld>(&world::family(&job.family), job, unit, choices)
}
