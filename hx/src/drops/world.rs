//! The C12 world: catalogue shapes, each built next to an independent "remaining" graph, whose
//! user handles (and the `IncrState` handle) are dropped in every order, with a stabilise
//! inserted or not after each drop.
//!
//! Leak detection uses only weak knowledge of the engine:
//! * every closure given to the engine captures a `Token` (live-instance counter, one counter
//!   per closure: `Clone` +1, `Drop` -1) -- "every value captured by its closures";
//! * node values are `Tk` (an i32 plus a token of the shape's value counter);
//! * a `WeakIncr` of every node of the shape (`strong_count()` must reach 0);
//! * `IncrState::weak()` (`strong_count()` must be 0 once the state handle and all handles
//!   are gone).
//! The harness itself holds strong references only through the droppable user handles.
//!
//! Judged moments (nothing else is judged, in particular not partial release):
//! * `C12.leak_after_stabilise`: all handles of the shape dropped, state handle still held, and
//!   a stabilise ran after the last of these drops;
//! * `C12.leak_after_state_drop`: the state handle and all handles of the shape dropped (then
//!   the harness drops the remaining graph's handles as well and also expects its counters and
//!   `WeakState::strong_count()` to be 0);
//! * `C12.remaining_value`: while the state handle is held, the remaining graph's observer
//!   shows f(its variable) after every stabilise and keeps showing it after every drop;
//! * `C12.panic`: any drop or stabilise panics (an abort kills the worker; the supervisor
//!   attributes it through the marker).

use crate::core::*;
use incremental::expert::{Dependency, Node as ExpertNode};
use incremental::{Incr, IncrState, Observer, Update, Value, Var, WeakIncr, WeakState};
use serde_json::{json, Value as Json};
use std::cell::{Cell, RefCell};
use std::rc::Rc;

// ---------------------------------------------------------------------------------------
// counted things

type Ctr = Rc<Cell<i64>>;

/// live-instance token: +1 on creation and clone, -1 on drop
pub struct Token(Ctr);
impl Token {
    fn new(c: &Ctr) -> Token {
        c.set(c.get() + 1);
        Token(c.clone())
    }
}
impl Clone for Token {
    fn clone(&self) -> Self {
        Token::new(&self.0)
    }
}
impl Drop for Token {
    fn drop(&mut self) {
        self.0.set(self.0.get() - 1);
    }
}

/// tracked node value
#[derive(Clone)]
pub struct Tk {
    v: i32,
    _tok: Token,
}
impl Tk {
    fn new(v: i32, c: &Ctr) -> Tk {
        Tk { v, _tok: Token::new(c) }
    }
    /// a fresh instance on the same counter
    fn with(&self, v: i32) -> Tk {
        Tk { v, _tok: self._tok.clone() }
    }
}
impl PartialEq for Tk {
    fn eq(&self, o: &Tk) -> bool {
        self.v == o.v
    }
}
impl std::fmt::Debug for Tk {
    fn fmt(&self, f: &mut std::fmt::Formatter<'_>) -> std::fmt::Result {
        write!(f, "Tk({})", self.v)
    }
}

pub trait Droppable {}
impl<T> Droppable for T {}
type Handle = Box<dyn Droppable>;

// ---------------------------------------------------------------------------------------
// programs / actions

pub const SHAPES: [&str; 20] = [
    "chain",
    "diamond",
    "bind_fresh",
    "bind_own_input",
    "var_of_var",
    "var_of_incr",
    "var3",
    "self_map2",
    "fold_dup",
    "expert_join",
    "expert_zip",
    "memo",
    "subscription",
    "map_ref",
    "closure_holds_var",
    "shared_var",
    "inner_invalidated",
    "inner_pending_invalidation",
    "shared_fanout",
    "memo_in_bind",
];

#[derive(Clone, Copy, Debug, PartialEq, Eq)]
pub enum Pre {
    /// nothing has ever been stabilised
    Fresh,
    /// one stabilise after construction
    Stabilised,
    /// stabilised, then a variable of the shape written (nodes sit in the recompute heap)
    Dirty,
}
impl Pre {
    fn name(self) -> &'static str {
        match self {
            Pre::Fresh => "fresh",
            Pre::Stabilised => "stabilised",
            Pre::Dirty => "dirty",
        }
    }
    fn parse(s: &str) -> Option<Pre> {
        [Pre::Fresh, Pre::Stabilised, Pre::Dirty].into_iter().find(|p| p.name() == s)
    }
}

#[derive(Clone, Debug)]
pub struct Prog {
    pub shape: String,
    pub pre: Pre,
    /// number of droppable user handles of the shape (base handles, padded with extra clones)
    pub handles: usize,
}

#[derive(Clone, Debug, PartialEq)]
pub enum Act {
    Stabilise,
    Drop(usize),
    DropState,
}

// ---------------------------------------------------------------------------------------
// construction context

struct Cx {
    pre: Pre,
    values: Ctr,
    handles: Vec<(String, Handle)>,
    extras: Vec<(String, Handle)>,
    counters: Vec<(String, Ctr)>,
    weaks: Vec<(String, Box<dyn Fn() -> usize>)>,
    /// shape `shared_var`: a second remaining graph that hangs off a node of the shape; what it
    /// legitimately keeps alive is judged only after the harness has released it too
    shared: Option<Shared>,
    /// the shape's construction stabilises whatever the variant says (the remaining observer is in use then)
    forced_stabilise: bool,
}

struct Shared {
    o: Observer<i32>,
    keep: Vec<Handle>,
    /// value the observer shows now (None: not yet stabilised) / after the next stabilise
    now: Option<i32>,
    next: i32,
    late_counters: Vec<(String, Ctr)>,
    late_weaks: Vec<(String, Box<dyn Fn() -> usize>)>,
    /// shape `shared_fanout`: writes the shared variable before every stabilise (argument = the new value), so that
    /// the shared remaining graph is judged on fresh values after every drop order
    poke: Option<Box<dyn Fn(i32)>>,
}

impl Cx {
    fn tok(&mut self, name: &str) -> Token {
        let c: Ctr = Rc::new(Cell::new(0));
        self.counters.push((format!("closure:{name}"), c.clone()));
        Token::new(&c)
    }
    fn val(&self, v: i32) -> Tk {
        Tk::new(v, &self.values)
    }
    fn weak<T: 'static>(&mut self, name: &str, i: &Incr<T>) {
        let w: WeakIncr<T> = i.weak();
        self.weaks.push((name.to_string(), Box::new(move || w.strong_count())));
    }
    fn handle<H: 'static>(&mut self, name: &str, h: H) {
        self.handles.push((name.to_string(), Box::new(h)));
    }
    fn extra<H: 'static>(&mut self, name: &str, h: H) {
        self.extras.push((name.to_string(), Box::new(h)));
    }
    /// performs the initial stabilise if the variant asks for one; true = now dirty a variable
    fn settle(&self, st: &IncrState) -> bool {
        if self.pre != Pre::Fresh {
            st.stabilise();
        }
        self.pre == Pre::Dirty
    }
}

// expert constructions copied from /repo/tests/expert.rs, with tokens in every closure
fn join<T: Value>(incr: &Incr<Incr<T>>, t_recompute: Token, t_lhs: Token) -> (Incr<T>, Incr<()>) {
    let prev_rhs: Rc<RefCell<Option<Dependency<T>>>> = Rc::new(None.into());
    let state = incr.state();
    let join = ExpertNode::<T>::new(&state, {
        let prev_rhs_ = prev_rhs.clone();
        move || {
            let _ = &t_recompute;
            prev_rhs_.borrow().clone().unwrap().value_cloned()
        }
    });
    let join_ = join.weak();
    let lhs_change = incr.map(move |rhs| {
        let _ = &t_lhs;
        let dep = join_.add_dependency(rhs);
        let mut prev_rhs_ = prev_rhs.borrow_mut();
        if let Some(prev) = prev_rhs_.take() {
            join_.remove_dependency(prev);
        }
        prev_rhs_.replace(dep);
    });
    join.add_dependency(&lhs_change);
    (join.watch(), lhs_change)
}

enum Storage<A, B> {
    None,
    OneOnly(A),
    TwoOnly(B),
    Both(A, B),
}
impl<A, B> Storage<A, B> {
    fn take(&mut self) -> Self {
        std::mem::replace(self, Storage::None)
    }
    fn both_cloned(&self) -> (A, B)
    where
        A: Clone,
        B: Clone,
    {
        match self {
            Self::Both(a, b) => (a.clone(), b.clone()),
            _ => panic!("zip2 node has not yet read both inputs"),
        }
    }
}

fn manual_zip2<T1: Value, T2: Value>(one: &Incr<T1>, two: &Incr<T2>, t0: Token, t1: Token, t2: Token) -> Incr<(T1, T2)> {
    let state = one.state();
    let current = Rc::new(RefCell::new(Storage::None));
    let zip2 = ExpertNode::<(T1, T2)>::new(&state, {
        let current_ = current.clone();
        move || {
            let _ = &t0;
            current_.borrow().both_cloned()
        }
    });
    let current_1 = current.clone();
    zip2.add_dependency_with(one, move |new_one| {
        let _ = &t1;
        let mut tuple = current_1.borrow_mut();
        let storage = tuple.take();
        let new_one = new_one.clone();
        let new = match storage {
            Storage::Both(_, b) | Storage::TwoOnly(b) => Storage::Both(new_one, b),
            Storage::None | Storage::OneOnly(_) => Storage::OneOnly(new_one),
        };
        *tuple = new;
    });
    let current_2 = current;
    zip2.add_dependency_with(two, move |new_two| {
        let _ = &t2;
        let mut tuple = current_2.borrow_mut();
        let storage = tuple.take();
        let new_b = new_two.clone();
        let new = match storage {
            Storage::Both(a, _) | Storage::OneOnly(a) => Storage::Both(a, new_b),
            Storage::None | Storage::TwoOnly(_) => Storage::TwoOnly(new_b),
        };
        *tuple = new;
    });
    zip2.watch()
}

fn first_of_pair(t: Token) -> impl for<'a> Fn(&'a (Tk, Tk)) -> &'a Tk + 'static {
    move |p| {
        let _ = &t;
        &p.0
    }
}

fn build_shape(shape: &str, cx: &mut Cx, st: &IncrState) -> bool {
    match shape {
        "chain" => {
            let v = st.var(cx.val(1));
            let (t1, t2) = (cx.tok("f1"), cx.tok("f2"));
            let m1 = v.map(move |x| {
                let _ = &t1;
                x.with(x.v + 1)
            });
            let m2 = m1.map(move |x| {
                let _ = &t2;
                x.with(x.v * 2)
            });
            let o = m2.observe();
            let o_second = m2.observe();
            cx.weak("v", &v.watch());
            cx.weak("m1", &m1);
            cx.weak("m2", &m2);
            if cx.settle(st) {
                v.set(cx.val(7));
            }
            cx.extra("o.clone", o.clone());
            cx.extra("v.clone", v.clone());
            cx.extra("o.second", o_second);
            cx.handle("v", v);
            cx.handle("m1", m1);
            cx.handle("m2", m2);
            cx.handle("o", o);
        }
        "diamond" => {
            let v = st.var(cx.val(1));
            let (ta, tb, td) = (cx.tok("fa"), cx.tok("fb"), cx.tok("fd"));
            let a = v.map(move |x| {
                let _ = &ta;
                x.with(x.v + 1)
            });
            let b = v.map(move |x| {
                let _ = &tb;
                x.with(x.v + 2)
            });
            let d = a.map2(&b, move |x, y| {
                let _ = &td;
                x.with(x.v + y.v)
            });
            let o = d.observe();
            let oa = a.observe();
            let o_second = d.observe();
            cx.weak("v", &v.watch());
            cx.weak("a", &a);
            cx.weak("b", &b);
            cx.weak("d", &d);
            if cx.settle(st) {
                v.set(cx.val(7));
            }
            cx.extra("a", a);
            cx.extra("o.clone", o.clone());
            cx.extra("o.second", o_second);
            cx.handle("v", v);
            cx.handle("d", d);
            cx.handle("o", o);
            cx.handle("oa", oa);
        }
        "bind_fresh" => {
            let v = st.var(cx.val(1));
            let (tb, ti) = (cx.tok("bind"), cx.tok("inner"));
            let ws = st.weak();
            let inner_weaks: Rc<RefCell<Vec<WeakIncr<Tk>>>> = Rc::new(RefCell::new(vec![]));
            let iw = inner_weaks.clone();
            let b = v.bind(move |x| {
                let _ = &tb;
                let ti = ti.clone();
                let k = ws.constant(x.with(x.v + 10));
                let m = k.map(move |y| {
                    let _ = &ti;
                    y.with(y.v + 1)
                });
                iw.borrow_mut().push(k.weak());
                iw.borrow_mut().push(m.weak());
                m
            });
            let o = b.observe();
            let o_second = b.observe();
            cx.weak("v", &v.watch());
            cx.weak("b", &b);
            cx.weaks.push(("rhs-nodes".into(), Box::new(move || inner_weaks.borrow().iter().map(|w| w.strong_count()).sum())));
            if cx.settle(st) {
                v.set(cx.val(7));
            }
            cx.extra("o.clone", o.clone());
            cx.extra("b.clone", b.clone());
            cx.extra("v.clone", v.clone());
            cx.extra("o.second", o_second);
            cx.handle("v", v);
            cx.handle("b", b);
            cx.handle("o", o);
        }
        // An observer (with a subscription) sits on a node that a bind closure built and that escaped; the bind's
        // input then changes, so the observed node is *invalidated while its observer is alive*; only afterwards are
        // the handles dropped (added after seed C12-b: an observer of an invalid node must still be unlinked).
        // `inner_pending_invalidation`: the write that will invalidate the node is still pending when the drops start.
        "inner_invalidated" | "inner_pending_invalidation" => {
            let v = st.var(cx.val(1));
            let (tb, ti, th) = (cx.tok("bind"), cx.tok("inner"), cx.tok("handler"));
            let ws = st.weak();
            let escaped: Rc<RefCell<Option<Incr<Tk>>>> = Rc::new(RefCell::new(None));
            let inner_weaks: Rc<RefCell<Vec<WeakIncr<Tk>>>> = Rc::new(RefCell::new(vec![]));
            let (iw, esc) = (inner_weaks.clone(), escaped.clone());
            let first_done = Cell::new(false);
            let b = v.bind(move |x| {
                let _ = &tb;
                let ti = ti.clone();
                let k = ws.constant(x.with(x.v + 10));
                let m = k.map(move |y| {
                    let _ = &ti;
                    y.with(y.v + 1)
                });
                iw.borrow_mut().push(k.weak());
                iw.borrow_mut().push(m.weak());
                // only the first generation's node escapes (the closure never keeps a handle afterwards)
                if !first_done.replace(true) {
                    *esc.borrow_mut() = Some(m.clone());
                }
                m
            });
            let o = b.observe();
            cx.weak("v", &v.watch());
            cx.weak("b", &b);
            cx.weaks.push(("rhs-nodes".into(), Box::new(move || inner_weaks.borrow().iter().map(|w| w.strong_count()).sum())));
            cx.forced_stabilise = true;
            st.stabilise();
            let m = escaped.borrow_mut().take().expect("bind closure ran");
            let io = m.observe();
            let _token = io.subscribe(move |_u: Update<&Tk>| {
                let _ = &th;
            });
            drop(m);
            st.stabilise();
            v.set(cx.val(2));
            if shape == "inner_invalidated" {
                st.stabilise();
            }
            if cx.settle(st) {
                v.set(cx.val(7));
            }
            cx.extra("io.clone", io.clone());
            cx.extra("o.clone", o.clone());
            cx.extra("b.clone", b.clone());
            cx.handle("v", v);
            cx.handle("b", b);
            cx.handle("o", o);
            cx.handle("io", io);
        }
        "bind_own_input" => {
            let v = st.var(cx.val(1));
            let t = cx.tok("bind");
            let w = v.watch();
            let b = v.bind(move |_| {
                let _ = &t;
                w.clone()
            });
            let o = b.observe();
            let o_second = b.observe();
            cx.weak("v", &v.watch());
            cx.weak("b", &b);
            if cx.settle(st) {
                v.set(cx.val(7));
            }
            cx.extra("o.clone", o.clone());
            cx.extra("v.clone", v.clone());
            cx.extra("b.clone", b.clone());
            cx.extra("o.second", o_second);
            cx.handle("v", v);
            cx.handle("b", b);
            cx.handle("o", o);
        }
        "var_of_var" => {
            let inner = st.var(cx.val(1));
            let outer: Var<Var<Tk>> = st.var(inner.clone());
            let t = cx.tok("bind");
            let j = outer.bind(move |iv| {
                let _ = &t;
                iv.watch()
            });
            let o = j.observe();
            cx.weak("inner", &inner.watch());
            cx.weak("outer", &outer.watch());
            cx.weak("j", &j);
            if cx.settle(st) {
                // the new inner variable's only handle lives inside the outer variable's value
                let fresh = st.var(cx.val(2));
                cx.weak("fresh-inner", &fresh.watch());
                outer.set(fresh);
            }
            cx.extra("o.clone", o.clone());
            cx.extra("outer.clone", outer.clone());
            cx.extra("inner.clone", inner.clone());
            cx.handle("inner", inner);
            cx.handle("outer", outer);
            cx.handle("j", j);
            cx.handle("o", o);
        }
        "var_of_incr" => {
            let inner = st.var(cx.val(1));
            let outer: Var<Incr<Tk>> = st.var(inner.watch());
            let t = cx.tok("bind");
            let j = outer.bind(move |i| {
                let _ = &t;
                i.clone()
            });
            let o = j.observe();
            cx.weak("inner", &inner.watch());
            cx.weak("outer", &outer.watch());
            cx.weak("j", &j);
            if cx.settle(st) {
                inner.set(cx.val(7));
            }
            cx.extra("o.clone", o.clone());
            cx.extra("inner.clone", inner.clone());
            cx.extra("outer.clone", outer.clone());
            cx.handle("inner", inner);
            cx.handle("outer", outer);
            cx.handle("j", j);
            cx.handle("o", o);
        }
        "var3" => {
            let v1 = st.var(cx.val(1));
            let v2: Var<Var<Tk>> = st.var(v1.clone());
            let v3: Var<Var<Var<Tk>>> = st.var(v2.clone());
            let t = cx.tok("f");
            let m = v3.map(move |vv| {
                let _ = &t;
                vv.get().get()
            });
            let o = m.observe();
            cx.weak("v1", &v1.watch());
            cx.weak("v2", &v2.watch());
            cx.weak("v3", &v3.watch());
            cx.weak("m", &m);
            if cx.settle(st) {
                let a = st.var(cx.val(5));
                cx.weak("fresh-v1", &a.watch());
                let b = st.var(a);
                cx.weak("fresh-v2", &b.watch());
                v3.set(b);
            }
            cx.extra("m", m);
            cx.extra("o.clone", o.clone());
            cx.extra("v3.clone", v3.clone());
            cx.handle("v1", v1);
            cx.handle("v2", v2);
            cx.handle("v3", v3);
            cx.handle("o", o);
        }
        "self_map2" => {
            let v = st.var(cx.val(1));
            let (t1, t2) = (cx.tok("f"), cx.tok("g"));
            let x = v.map(move |a| {
                let _ = &t1;
                a.with(a.v + 1)
            });
            let y = x.map2(&x, move |a, b| {
                let _ = &t2;
                a.with(a.v + b.v)
            });
            let o = y.observe();
            let o_second = x.observe();
            cx.weak("v", &v.watch());
            cx.weak("x", &x);
            cx.weak("y", &y);
            if cx.settle(st) {
                v.set(cx.val(7));
            }
            cx.extra("o.clone", o.clone());
            cx.extra("v.clone", v.clone());
            cx.extra("o.second-on-x", o_second);
            cx.handle("v", v);
            cx.handle("x", x);
            cx.handle("y", y);
            cx.handle("o", o);
        }
        "fold_dup" => {
            let v = st.var(cx.val(1));
            let (t1, t2) = (cx.tok("f"), cx.tok("fold"));
            let a = v.map(move |x| {
                let _ = &t1;
                x.with(x.v + 1)
            });
            let fo = st.fold(vec![a.clone(), a.clone(), v.watch()], cx.val(0), move |acc: Tk, x: &Tk| {
                let _ = &t2;
                acc.with(acc.v + x.v)
            });
            let o = fo.observe();
            let o_second = a.observe();
            cx.weak("v", &v.watch());
            cx.weak("a", &a);
            cx.weak("fold", &fo);
            if cx.settle(st) {
                v.set(cx.val(7));
            }
            cx.extra("o.clone", o.clone());
            cx.extra("v.clone", v.clone());
            cx.extra("o.second-on-a", o_second);
            cx.handle("v", v);
            cx.handle("a", a);
            cx.handle("fold", fo);
            cx.handle("o", o);
        }
        "expert_join" => {
            let inner = st.var(cx.val(10));
            let outer: Var<Incr<Tk>> = st.var(inner.watch());
            let (t1, t2) = (cx.tok("join.recompute"), cx.tok("join.lhs_change"));
            let (joined, lhs_change) = join(&outer.watch(), t1, t2);
            cx.weak("lhs_change", &lhs_change);
            drop(lhs_change);
            let o = joined.observe();
            cx.weak("inner", &inner.watch());
            cx.weak("outer", &outer.watch());
            cx.weak("joined", &joined);
            if cx.settle(st) {
                let n = st.var(cx.val(20));
                cx.weak("second-inner", &n.watch());
                outer.set(n.watch());
                drop(n);
            }
            cx.extra("o.clone", o.clone());
            cx.extra("inner.clone", inner.clone());
            cx.extra("outer.clone", outer.clone());
            cx.handle("inner", inner);
            cx.handle("outer", outer);
            cx.handle("joined", joined);
            cx.handle("o", o);
        }
        "expert_zip" => {
            let i1 = st.var(cx.val(3));
            let i2 = st.var(cx.val(5));
            let (t0, t1, t2) = (cx.tok("zip.recompute"), cx.tok("zip.on_change1"), cx.tok("zip.on_change2"));
            let z = manual_zip2(&i1.watch(), &i2.watch(), t0, t1, t2);
            let o = z.observe();
            cx.weak("i1", &i1.watch());
            cx.weak("i2", &i2.watch());
            cx.weak("z", &z);
            if cx.settle(st) {
                i1.set(cx.val(7));
            }
            cx.extra("o.clone", o.clone());
            cx.extra("i1.clone", i1.clone());
            cx.extra("z.clone", z.clone());
            cx.handle("i1", i1);
            cx.handle("i2", i2);
            cx.handle("z", z);
            cx.handle("o", o);
        }
        "memo" => {
            let v = st.var(cx.val(1));
            let (tf, tin) = (cx.tok("memo.f"), cx.tok("memo.node_fn"));
            let vw = v.watch();
            let mut f = st.weak_memoize_fn(move |k: i32| {
                let _ = &tf;
                let t2 = tin.clone();
                vw.map(move |x| {
                    let _ = &t2;
                    x.with(x.v + k)
                })
            });
            let n1 = f(1);
            let n1b = f(1);
            let n2 = f(2);
            let o = n1.observe();
            cx.weak("v", &v.watch());
            cx.weak("n1", &n1);
            cx.weak("n2", &n2);
            if cx.settle(st) {
                v.set(cx.val(7));
            }
            cx.extra("n2", n2);
            cx.extra("n1.again", n1b);
            cx.extra("o.clone", o.clone());
            cx.handle("v", v);
            cx.handle("memo_fn", f);
            cx.handle("n1", n1);
            cx.handle("o", o);
        }
        // the memoised function lives inside a bind closure (a node closure owns it); the bind is observed, so the
        // state's own observer table reaches the closure: nothing in it may keep the state alive (after seed C12-d)
        "memo_in_bind" => {
            let v = st.var(cx.val(1));
            let sel = st.var(cx.val(0));
            let (tf, tin, tb) = (cx.tok("memo.f"), cx.tok("memo.node_fn"), cx.tok("bind"));
            let vw = v.watch();
            let mut f = st.weak_memoize_fn(move |k: i32| {
                let _ = &tf;
                let t2 = tin.clone();
                vw.map(move |x| {
                    let _ = &t2;
                    x.with(x.v + k)
                })
            });
            let b = sel.bind(move |s| {
                let _ = &tb;
                f(s.v % 2)
            });
            let o = b.observe();
            cx.weak("v", &v.watch());
            cx.weak("sel", &sel.watch());
            cx.weak("b", &b);
            if cx.settle(st) {
                sel.set(cx.val(1));
            }
            cx.extra("o.clone", o.clone());
            cx.extra("b.clone", b.clone());
            cx.handle("v", v);
            cx.handle("sel", sel);
            cx.handle("b", b);
            cx.handle("o", o);
        }
        "subscription" => {
            let v = st.var(cx.val(1));
            let (t1, t2, th) = (cx.tok("f"), cx.tok("g"), cx.tok("handler"));
            let m = v.map(move |x| {
                let _ = &t1;
                x.with(x.v + 1)
            });
            let m2 = m.map(move |x| {
                let _ = &t2;
                x.with(x.v + 1)
            });
            let o = m.observe();
            cx.weak("v", &v.watch());
            cx.weak("m", &m);
            cx.weak("m2", &m2);
            // the callback owns an Incr handle (not an Observer)
            let captured = m2.clone();
            let _token = o.subscribe(move |_u: Update<&Tk>| {
                let _ = (&th, &captured);
            });
            if cx.settle(st) {
                v.set(cx.val(7));
            }
            cx.extra("o.clone", o.clone());
            cx.extra("v.clone", v.clone());
            cx.extra("m2", m2);
            cx.extra("m.clone", m.clone());
            cx.handle("v", v);
            cx.handle("m", m);
            cx.handle("o", o);
        }
        "map_ref" => {
            let v: Var<(Tk, Tk)> = st.var((cx.val(1), cx.val(2)));
            let (t1, t2) = (cx.tok("map_ref.f"), cx.tok("g"));
            let r = v.map_ref(first_of_pair(t1));
            let m = r.map(move |x| {
                let _ = &t2;
                x.with(x.v + 1)
            });
            let o = m.observe();
            cx.weak("v", &v.watch());
            cx.weak("r", &r);
            cx.weak("m", &m);
            if cx.settle(st) {
                v.set((cx.val(7), cx.val(8)));
            }
            cx.extra("o.clone", o.clone());
            cx.extra("v.clone", v.clone());
            cx.extra("r.clone", r.clone());
            cx.handle("v", v);
            cx.handle("r", r);
            cx.handle("m", m);
            cx.handle("o", o);
        }
        "closure_holds_var" => {
            // a node function owning a Var handle of another variable of the shape (as C08's
            // writers do): the last Var handle is released from inside the engine
            let target = st.var(cx.val(1));
            let g = st.var(cx.val(2));
            let (t1, t2) = (cx.tok("writer"), cx.tok("reader"));
            let held = target.clone();
            let w = g.map(move |x| {
                let _ = (&t1, &held);
                x.with(x.v + 1)
            });
            let r = target.map2(&w, move |a, b| {
                let _ = &t2;
                a.with(a.v + b.v)
            });
            let o = r.observe();
            cx.weak("target", &target.watch());
            cx.weak("g", &g.watch());
            cx.weak("w", &w);
            cx.weak("r", &r);
            if cx.settle(st) {
                g.set(cx.val(7));
                target.set(cx.val(8));
            }
            drop(w);
            cx.extra("o.clone", o.clone());
            cx.extra("g.clone", g.clone());
            cx.extra("target.clone", target.clone());
            cx.handle("target", target);
            cx.handle("g", g);
            cx.handle("r", r);
            cx.handle("o", o);
        }
        "shared_var" => {
            // the remaining graph shares the shape's variable node: dropping every handle of the
            // shape (including the Var) must not disturb it, and the shared node legitimately
            // stays alive until the remaining graph is released too
            let late_values: Ctr = Rc::new(Cell::new(0));
            let v = st.var(Tk::new(1, &late_values));
            let t1 = cx.tok("f1");
            let m1 = v.map(move |x| {
                let _ = &t1;
                x.with(x.v + 1)
            });
            let o1 = m1.observe();
            let late_closure: Ctr = Rc::new(Cell::new(0));
            let tr = Token::new(&late_closure);
            let rm = v.map(move |x| {
                let _ = &tr;
                x.v + 100
            });
            let ro = rm.observe();
            cx.weak("m1", &m1);
            let wv = v.watch().weak();
            let wrm = rm.weak();
            let dirty = cx.settle(st);
            if dirty {
                v.set(Tk::new(7, &late_values));
            }
            cx.shared = Some(Shared {
                o: ro,
                keep: vec![Box::new(rm)],
                now: if cx.pre == Pre::Fresh { None } else { Some(101) },
                next: if dirty { 107 } else { 101 },
                late_counters: vec![("values".into(), late_values), ("closure:remaining-map".into(), late_closure)],
                late_weaks: vec![("v".into(), Box::new(move || wv.strong_count())), ("remaining-map".into(), Box::new(move || wrm.strong_count()))],
                poke: None,
            });
            cx.extra("o1.clone", o1.clone());
            cx.extra("v.clone", v.clone());
            cx.extra("m1.clone", m1.clone());
            cx.handle("v", v);
            cx.handle("m1", m1);
            cx.handle("o1", o1);
        }
        // One variable with three dependants linked at the same time: two of the shape (oldest), then the remaining
        // graph's map (youngest). The shape's observers are dropped in every order while the harness keeps writing the
        // variable (through a handle of its own) before every stabilise: the remaining dependant must keep following
        // (added after seed C12-c: removal from the middle of a node's dependant list).
        "shared_fanout" => {
            let late_values: Ctr = Rc::new(Cell::new(0));
            let v = st.var(Tk::new(1, &late_values));
            let (t1, t2) = (cx.tok("f1"), cx.tok("f2"));
            let m1 = v.map(move |x| {
                let _ = &t1;
                x.with(x.v + 1)
            });
            let m2 = v.map(move |x| {
                let _ = &t2;
                x.with(x.v + 2)
            });
            let o1 = m1.observe();
            let o2 = m2.observe();
            let late_closure: Ctr = Rc::new(Cell::new(0));
            let tr = Token::new(&late_closure);
            let rm = v.map(move |x| {
                let _ = &tr;
                x.v + 100
            });
            let ro = rm.observe();
            cx.weak("m1", &m1);
            cx.weak("m2", &m2);
            let wv = v.watch().weak();
            let wrm = rm.weak();
            // the three dependants are linked, in creation order, by this stabilise (all variants)
            cx.forced_stabilise = true;
            st.stabilise();
            let dirty = cx.settle(st);
            if dirty {
                v.set(Tk::new(7, &late_values));
            }
            let (pv, pc) = (v.clone(), late_values.clone());
            cx.shared = Some(Shared {
                o: ro,
                keep: vec![Box::new(rm)],
                now: Some(101),
                next: if dirty { 107 } else { 101 },
                late_counters: vec![("values".into(), late_values), ("closure:remaining-map".into(), late_closure)],
                late_weaks: vec![("v".into(), Box::new(move || wv.strong_count())), ("remaining-map".into(), Box::new(move || wrm.strong_count()))],
                poke: Some(Box::new(move |x| pv.set(Tk::new(x, &pc)))),
            });
            cx.extra("m1", m1);
            cx.extra("m2", m2);
            cx.handle("o1", o1);
            cx.handle("o2", o2);
            cx.handle("v", v);
        }
        // self-test of the oracles (family `c12/selftest`): the harness itself leaks a strong
        // reference to a node, as an engine that forgot to release it would
        "selftest_leak" => {
            let v = st.var(cx.val(1));
            let t = cx.tok("f");
            let m = v.map(move |x| {
                let _ = &t;
                x.with(x.v + 1)
            });
            let o = m.observe();
            cx.weak("v", &v.watch());
            cx.weak("m", &m);
            std::mem::forget(m.clone());
            if cx.settle(st) {
                v.set(cx.val(7));
            }
            cx.handle("v", v);
            cx.handle("m", m);
            cx.handle("o", o);
        }
        _ => return false,
    }
    true
}

// ---------------------------------------------------------------------------------------
// the world

struct Remaining {
    v: Var<Tk>,
    _m: Incr<i32>,
    o: Observer<i32>,
}

pub struct DropsWorld {
    prog: Prog,
    state: Option<IncrState>,
    weak_state: Option<WeakState>,
    names: Vec<String>,
    handles: Vec<Option<Handle>>,
    counters: Vec<(String, Ctr)>,
    weaks: Vec<(String, Box<dyn Fn() -> usize>)>,
    rem: Option<Remaining>,
    shared: Option<Shared>,
    rem_values: Ctr,
    rem_closure: Ctr,
    /// value the remaining observer must show (None before its first stabilise)
    rem_expected: Option<i32>,
    rem_n: i32,
    last_was_drop: bool,
    built: bool,
    dead: bool,
    obs_hash: u64,
    witness: Counters,
    explain: String,
}

fn v(rule: &'static str, sig: impl Into<String>, detail: impl Into<String>) -> Violation {
    Violation::new("C12", rule, sig, detail)
}

impl DropsWorld {
    fn note(&mut self, k: &'static str) {
        *self.witness.entry(k).or_insert(0) += 1;
    }

    fn all_handles_dropped(&self) -> bool {
        self.handles.iter().all(|h| h.is_none())
    }

    /// everything of the shape that is still alive: (what, amount)
    fn leaks(&self) -> Vec<(String, i64)> {
        let mut out = vec![];
        for (name, c) in self.counters.iter() {
            if c.get() != 0 {
                out.push((name.clone(), c.get()));
            }
        }
        for (name, w) in self.weaks.iter() {
            let n = w();
            if n != 0 {
                out.push((format!("node:{name}"), n as i64));
            }
        }
        out
    }

    /// one violation per judged moment; the signature names the shape and the set of things that
    /// are still alive (closure counters, the value counter, nodes)
    fn judge_leaks(&mut self, rule: &'static str, when: &str, vs: &mut Vec<Violation>) {
        let shape = self.prog.shape.clone();
        let leaks = self.leaks();
        if leaks.is_empty() {
            return;
        }
        let names: Vec<&str> = leaks.iter().map(|(n, _)| n.as_str()).collect();
        vs.push(v(rule, format!("{shape}:{}", names.join("+")), format!("{when}: of shape {shape} still alive (live instances / strong references): {leaks:?}")));
    }

    fn panic_violation(&mut self, what: &str, p: &PanicInfo, vs: &mut Vec<Violation>) {
        self.dead = true;
        self.explain = format!("PANIC in {what} at {}: {}", p.short_location(), p.first_line());
        vs.push(v("C12.panic", format!("{}:{what}@{}", self.prog.shape, p.short_location()), format!("{what} panicked at {}: {}", p.short_location(), p.first_line())));
    }

    fn check_remaining(&mut self, when: &str, check: bool, vs: &mut Vec<Violation>) {
        if self.state.is_none() {
            return;
        }
        let (Some(rem), Some(exp)) = (self.rem.as_ref(), self.rem_expected) else { return };
        let o = rem.o.clone();
        match catch(move || o.try_get_value()) {
            Ok(got) => {
                self.obs_hash = hash64(&(self.obs_hash, format!("{got:?}")));
                if check && got != Ok(exp) {
                    vs.push(v("C12.remaining_value", format!("{}:{when}", self.prog.shape), format!("{when}: the remaining graph's observer shows {got:?}, expected Ok({exp})")));
                }
            }
            Err(p) => return self.panic_violation("read-remaining-observer", &p, vs),
        }
        let Some((o, Some(exp))) = self.shared.as_ref().map(|s| (s.o.clone(), s.now)) else { return };
        match catch(move || o.try_get_value()) {
            Ok(got) => {
                self.obs_hash = hash64(&(self.obs_hash, format!("{got:?}")));
                if check && got != Ok(exp) {
                    vs.push(v("C12.remaining_value", format!("{}:shared:{when}", self.prog.shape), format!("{when}: the observer of the remaining graph that shares a node with the shape shows {got:?}, expected Ok({exp})")));
                }
            }
            Err(p) => self.panic_violation("read-remaining-observer", &p, vs),
        }
    }

    /// state handle and all handles of the shape are gone
    fn final_check(&mut self, check: bool, vs: &mut Vec<Violation>) {
        self.note("judged_after_state_and_handles_dropped");
        if check {
            self.judge_leaks("C12.leak_after_state_drop", "state handle and all handles dropped", vs);
        }
        // now release the remaining graph too: then nothing at all may be left
        let rem = self.rem.take();
        let (sh_o, sh_keep, sh_poke, late_counters, late_weaks) = match self.shared.take() {
            Some(sh) => (Some(sh.o), sh.keep, sh.poke, sh.late_counters, sh.late_weaks),
            None => (None, vec![], None, vec![], vec![]),
        };
        if let Err(p) = catch(move || {
            drop(rem);
            drop(sh_o);
            drop(sh_keep);
            drop(sh_poke);
        }) {
            return self.panic_violation("drop-remaining-graph", &p, vs);
        }
        if check {
            let shape = self.prog.shape.clone();
            let mut late: Vec<(String, i64)> = late_counters.iter().filter(|(_, c)| c.get() != 0).map(|(n, c)| (n.clone(), c.get())).collect();
            late.extend(late_weaks.iter().map(|(n, w)| (format!("node:{n}"), w() as i64)).filter(|(_, n)| *n != 0));
            if !late.is_empty() {
                let names: Vec<&str> = late.iter().map(|(n, _)| n.as_str()).collect();
                vs.push(v("C12.leak_after_state_drop", format!("{shape}:shared:{}", names.join("+")), format!("after the remaining graph that shares a node with the shape was released too, still alive: {late:?}")));
            }
            if self.rem_values.get() != 0 || self.rem_closure.get() != 0 {
                vs.push(v("C12.leak_after_state_drop", format!("{shape}:remaining-graph"), format!("after dropping the remaining graph's handles too: {} value instance(s), {} closure(s) of it are still alive", self.rem_values.get(), self.rem_closure.get())));
            }
            let n = self.weak_state.as_ref().map_or(0, |w| w.strong_count());
            if n != 0 {
                vs.push(v("C12.leak_after_state_drop", format!("{shape}:state"), format!("WeakState::strong_count() is {n} after the state handle and every handle were dropped")));
            }
        }
    }
}

impl World for DropsWorld {
    type Prog = Prog;
    type Action = Act;

    fn new(prog: &Prog, _cfg: &Cfg) -> Self {
        let rem_values: Ctr = Rc::new(Cell::new(0));
        let rem_closure: Ctr = Rc::new(Cell::new(0));
        let mut cx = Cx {
            pre: prog.pre,
            values: Rc::new(Cell::new(0)),
            handles: vec![],
            extras: vec![],
            counters: vec![],
            weaks: vec![],
            shared: None,
            forced_stabilise: false,
        };
        let shape = prog.shape.clone();
        let n_handles = prog.handles;
        let (rv, rc) = (rem_values.clone(), rem_closure.clone());
        let cxr = &mut cx;
        let res = catch(move || {
            let st = IncrState::new();
            // the remaining graph first: it is part of the initial stabilise of the variants
            let t = Token::new(&rc);
            let v = st.var(Tk::new(100, &rv));
            let m = v.map(move |x| {
                let _ = &t;
                x.v + 1
            });
            let o = m.observe();
            let ok = build_shape(&shape, cxr, &st);
            (st, Remaining { v, _m: m, o }, ok)
        });
        let values = cx.values.clone();
        let mut counters = std::mem::take(&mut cx.counters);
        counters.insert(0, ("values".to_string(), values));
        let mut w = DropsWorld {
            prog: prog.clone(),
            state: None,
            weak_state: None,
            names: vec![],
            handles: vec![],
            counters,
            weaks: std::mem::take(&mut cx.weaks),
            rem: None,
            shared: None,
            rem_values,
            rem_closure,
            rem_expected: if prog.pre == Pre::Fresh && !cx.forced_stabilise { None } else { Some(101) },
            rem_n: 0,
            last_was_drop: false,
            built: false,
            dead: false,
            obs_hash: 0,
            witness: Counters::new(),
            explain: String::new(),
        };
        if let Ok((st, rem, true)) = res {
            w.weak_state = Some(st.weak());
            w.state = Some(st);
            w.rem = Some(rem);
            w.shared = cx.shared.take();
            let mut hs: Vec<(String, Handle)> = std::mem::take(&mut cx.handles);
            let mut extras = std::mem::take(&mut cx.extras).into_iter();
            while hs.len() < n_handles {
                match extras.next() {
                    Some(e) => hs.push(e),
                    None => break,
                }
            }
            // unused extras are released here, before the history starts
            drop(extras);
            for (n, h) in hs {
                w.names.push(n);
                w.handles.push(Some(h));
            }
            w.built = true;
        } else {
            w.dead = true;
        }
        w
    }

    fn enabled(&self) -> Vec<Act> {
        if self.dead || !self.built {
            return vec![];
        }
        let mut acts = vec![];
        if self.state.is_some() && self.last_was_drop {
            acts.push(Act::Stabilise);
        }
        for (i, h) in self.handles.iter().enumerate() {
            if h.is_some() {
                acts.push(Act::Drop(i));
            }
        }
        if self.state.is_some() {
            acts.push(Act::DropState);
        }
        acts
    }

    fn step(&mut self, a: &Act, check: bool) -> Vec<Violation> {
        let mut vs = vec![];
        self.explain.clear();
        self.witness.clear();
        if !self.built {
            self.dead = true;
            vs.push(v("C12.panic", format!("{}:build", self.prog.shape), "building the shape panicked or the shape is unknown"));
            return vs;
        }
        match a {
            Act::Stabilise => {
                self.last_was_drop = false;
                let st = self.state.clone().unwrap();
                self.rem_n += 1;
                let n = self.rem_n;
                let rv = self.rem.as_ref().unwrap().v.clone();
                let ctr = self.rem_values.clone();
                if let Some(sh) = self.shared.as_mut() {
                    if let Some(poke) = sh.poke.as_ref() {
                        if let Err(p) = catch(|| poke(10 * n)) {
                            self.panic_violation("write-shared-var", &p, &mut vs);
                            return vs;
                        }
                        sh.next = 10 * n + 100;
                    }
                }
                let res = catch(move || {
                    rv.set(Tk::new(100 + n, &ctr));
                    drop(rv);
                    st.stabilise();
                    drop(st);
                });
                if let Err(p) = res {
                    self.panic_violation("stabilise", &p, &mut vs);
                    return vs;
                }
                self.rem_expected = Some(101 + n);
                if let Some(sh) = self.shared.as_mut() {
                    sh.now = Some(sh.next);
                }
                self.check_remaining("after-stabilise", check, &mut vs);
                if self.all_handles_dropped() {
                    self.note("judged_after_handles_dropped_and_one_stabilise");
                    if check {
                        self.judge_leaks("C12.leak_after_stabilise", "all handles dropped, then one stabilise", &mut vs);
                    }
                }
            }
            Act::Drop(i) => {
                self.last_was_drop = true;
                let h = self.handles[*i].take();
                let name = self.names[*i].clone();
                if let Err(p) = catch(move || drop(h)) {
                    self.panic_violation(&format!("drop-{name}"), &p, &mut vs);
                    return vs;
                }
                self.obs_hash = hash64(&(self.obs_hash, "drop", i));
                self.check_remaining("after-drop", check, &mut vs);
                if self.state.is_none() && self.all_handles_dropped() && !self.dead {
                    self.final_check(check, &mut vs);
                }
            }
            Act::DropState => {
                self.last_was_drop = true;
                let st = self.state.take();
                if let Err(p) = catch(move || drop(st)) {
                    self.panic_violation("drop-state", &p, &mut vs);
                    return vs;
                }
                self.obs_hash = hash64(&(self.obs_hash, "drop-state"));
                if self.all_handles_dropped() {
                    self.final_check(check, &mut vs);
                }
            }
        }
        if check {
            let alive: Vec<&str> = self.handles.iter().zip(self.names.iter()).filter(|(h, _)| h.is_some()).map(|(_, n)| n.as_str()).collect();
            self.explain.push_str(&format!("handles alive: {alive:?} state: {} still alive of the shape: {:?}", self.state.is_some(), self.leaks()));
        }
        vs
    }

    fn canon(&self) -> Option<String> {
        None // E1: closures and counters are not part of any dump
    }

    fn dead(&self) -> bool {
        self.dead
    }

    fn observation_hash(&self) -> u64 {
        self.obs_hash
    }

    fn take_counters(&mut self) -> Counters {
        std::mem::take(&mut self.witness)
    }

    fn teardown(mut self) {
        let _ = catch(|| {
            for h in self.handles.iter_mut() {
                h.take();
            }
            self.rem.take();
            self.shared.take();
            self.state.take();
        });
    }

    fn prog_json(p: &Prog) -> Json {
        json!({"shape": p.shape, "pre": p.pre.name(), "handles": p.handles})
    }

    fn prog_from_json(j: &Json) -> Option<Prog> {
        Some(Prog {
            shape: j["shape"].as_str()?.to_string(),
            pre: Pre::parse(j["pre"].as_str()?)?,
            handles: j["handles"].as_u64()? as usize,
        })
    }

    fn action_json(a: &Act) -> Json {
        match a {
            Act::Stabilise => json!("stabilise"),
            Act::Drop(i) => json!({"drop": i}),
            Act::DropState => json!("drop_state"),
        }
    }

    fn action_from_json(j: &Json) -> Option<Act> {
        match j.as_str() {
            Some("stabilise") => Some(Act::Stabilise),
            Some("drop_state") => Some(Act::DropState),
            Some(_) => None,
            None => Some(Act::Drop(j["drop"].as_u64()? as usize)),
        }
    }

    fn explain_last(&self) -> String {
        self.explain.clone()
    }
}

pub fn family(name: &str) -> Vec<Prog> {
    let handles = match name {
        "c12/selftest" => {
            return vec![Prog { shape: "selftest_leak".into(), pre: Pre::Stabilised, handles: 3 }];
        }
        "c12/catalogue" => 5,
        "c12/catalogue-full" => 6,
        "c12/catalogue-7" => 7,
        "c12/catalogue-small" => 4,
        _ => return vec![],
    };
    let mut out = vec![];
    for s in SHAPES {
        for pre in [Pre::Fresh, Pre::Stabilised, Pre::Dirty] {
            out.push(Prog { shape: s.to_string(), pre, handles });
        }
    }
    out
}
