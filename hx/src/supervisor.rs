//! `hx check <property> <tier>`: shards the plan's units over worker processes of the right
//! build profile, attributes aborts/hangs through the marker file, merges statistics, matches
//! violations against known findings, writes evidence and replay files, decides the exit code.

use crate::core::*;
use crate::explore::*;
use crate::plan::*;
use serde_json::{json, Value as Json};
use std::collections::{BTreeMap, VecDeque};
use std::io::{BufRead, BufReader, Write};
use std::process::{Command, Stdio};
use std::sync::{Arc, Mutex};
use std::time::{Duration, Instant, SystemTime, UNIX_EPOCH};

/// where evidence/, replays/ and known_findings.jsonl live (override for scratch runs against
/// modified copies of the repository: HX_OUT_DIR), and where the two profile binaries are
/// (HX_BIN_DIR)
fn verif_dir() -> String {
    std::env::var("HX_OUT_DIR").unwrap_or_else(|_| "/verif".to_string())
}
fn bin_dir() -> String {
    std::env::var("HX_BIN_DIR").unwrap_or_else(|_| "/verif/hx/target".to_string())
}

fn now_ms() -> u64 {
    SystemTime::now().duration_since(UNIX_EPOCH).unwrap().as_millis() as u64
}

pub fn stats_to_json(s: &Stats) -> Json {
    json!({
        "programs": s.programs, "states": s.states, "transitions": s.transitions, "histories": s.histories,
        "replay_steps": s.replay_steps, "pruned": s.pruned,
        "max_depth": s.max_depth_completed, "min_depth": if s.min_depth_completed == usize::MAX { 0 } else { s.min_depth_completed },
        "exhausted": s.programs_exhausted, "caps": s.caps, "congruence": s.congruence_checked,
        "traces": s.observation_traces.len(),
        "counters": s.counters.iter().map(|(k, v)| (k.to_string(), json!(v))).collect::<serde_json::Map<_, _>>(),
        "found": s.found.values().map(|f| json!({
            "viol": f.viol.to_json(), "prog": f.prog, "history": f.history, "explain": f.explain, "occurrences": f.occurrences
        })).collect::<Vec<_>>(),
        "samples": s.samples,
        "machinery": s.machinery_errors,
    })
}

// ------------------------------------------------------------------------------------ worker

/// `hx worker <property> <tier> <markfile>`: reads "<job> <unit> <deadline_ms>" lines.
pub fn worker(args: &[String]) -> i32 {
    let property = &args[0];
    let tier = if args[1] == "thorough" { Tier::Thorough } else { Tier::Quick };
    let marker = Marker::open(&args[2]);
    let Some(plan) = plan(property, tier) else {
        eprintln!("no plan for {property}");
        return 2;
    };
    // watchdog: no progress for 120 s => the engine hangs
    {
        let progress = marker.progress.clone();
        let busy = Arc::new(std::sync::atomic::AtomicBool::new(false));
        BUSY.with(|b| *b.borrow_mut() = Some(busy.clone()));
        std::thread::spawn(move || {
            let mut last = progress.load(std::sync::atomic::Ordering::Relaxed);
            let mut since = Instant::now();
            loop {
                std::thread::sleep(Duration::from_millis(500));
                let cur = progress.load(std::sync::atomic::Ordering::Relaxed);
                if cur != last || !busy.load(std::sync::atomic::Ordering::Relaxed) {
                    last = cur;
                    since = Instant::now();
                } else if since.elapsed() > Duration::from_secs(120) {
                    eprintln!("HANG: no progress for 120 s");
                    std::process::exit(3);
                }
            }
        });
    }
    let stdin = std::io::stdin();
    let stdout = std::io::stdout();
    for line in stdin.lock().lines() {
        let Ok(line) = line else { break };
        let parts: Vec<&str> = line.split_whitespace().collect();
        if parts.first() == Some(&"quit") || parts.len() < 3 {
            break;
        }
        let job_ix: usize = parts[0].parse().unwrap();
        let unit: usize = parts[1].parse().unwrap();
        let deadline_ms: u64 = parts[2].parse().unwrap();
        let deadline = if deadline_ms == 0 {
            None
        } else {
            Some(Instant::now() + Duration::from_millis(deadline_ms.saturating_sub(now_ms())))
        };
        let job = &plan.jobs[job_ix];
        let mut stats = Stats::new();
        let t0 = Instant::now();
        set_busy(true);
        run_unit(job, job_ix as u32, unit, tier, deadline, &marker, &mut stats);
        set_busy(false);
        let mut j = stats_to_json(&stats);
        j["job"] = json!(job_ix);
        j["unit"] = json!(unit);
        j["wall_s"] = json!(t0.elapsed().as_secs_f64());
        let mut out = stdout.lock();
        let _ = writeln!(out, "{}", serde_json::to_string(&j).unwrap());
        let _ = out.flush();
    }
    0
}

thread_local! {
    static BUSY: std::cell::RefCell<Option<Arc<std::sync::atomic::AtomicBool>>> = std::cell::RefCell::new(None);
}
fn set_busy(b: bool) {
    BUSY.with(|x| {
        if let Some(a) = x.borrow().as_ref() {
            a.store(b, std::sync::atomic::Ordering::Relaxed)
        }
    });
}

// -------------------------------------------------------------------------------- supervisor

#[derive(Default)]
struct Merged {
    programs: u64,
    states: u64,
    transitions: u64,
    histories: u64,
    replay_steps: u64,
    pruned: u64,
    max_depth: u64,
    min_depth: u64,
    exhausted: u64,
    congruence: u64,
    traces: u64,
    caps: Vec<String>,
    counters: BTreeMap<String, u64>,
    found: BTreeMap<String, Json>,
    samples: Vec<Json>,
    machinery: Vec<String>,
    units_done: u64,
    units_total: u64,
    aborted: Vec<Json>,
    per_job: BTreeMap<usize, Json>,
}

fn binary_for(profile: &str) -> String {
    // the two profiles are built into separate target directories so that they can be built in
    // parallel (one cargo process holds a lock on its target directory)
    if profile == "dbg" {
        format!("{}/dbg-build/dbg/hx", bin_dir())
    } else {
        format!("{}/release/hx", bin_dir())
    }
}

struct Unit {
    job: usize,
    unit: usize,
}

pub fn check(property: &str, tier: Tier) -> i32 {
    let t0 = Instant::now();
    let seed: i64 = std::env::var("VERIF_SEED").ok().and_then(|s| s.parse().ok()).unwrap_or(0);
    let Some(mut plan) = plan(property, tier) else {
        eprintln!("hx: no check registered for {property}");
        return 2;
    };
    // HX_WALL_SCALE: development aid for loaded machines (the registered commands do not set it)
    let scale: u64 = std::env::var("HX_WALL_SCALE").ok().and_then(|s| s.parse().ok()).unwrap_or(1);
    let deadline_ms = now_ms() + plan.wall_s * 1000 * scale;
    let mut queue: VecDeque<Unit> = VecDeque::new();
    let mut total = 0u64;
    for (ji, job) in plan.jobs.iter_mut().enumerate() {
        job.units = resolve_units(job, tier);
        for u in 0..job.units {
            queue.push_back(Unit { job: ji, unit: u });
            total += 1;
        }
    }
    // jobs with few (hence usually large) units first, the many small units fill the tail
    {
        let mut v: Vec<Unit> = queue.drain(..).collect();
        v.sort_by_key(|u| plan.jobs[u.job].units);
        queue.extend(v);
    }
    let merged = Arc::new(Mutex::new(Merged {
        units_total: total,
        min_depth: u64::MAX,
        ..Default::default()
    }));
    let plan = Arc::new(plan);
    let ncpu: usize = std::env::var("HX_WORKERS").ok().and_then(|s| s.parse().ok()).unwrap_or(16);
    let mut handles = vec![];
    let tmp = std::env::temp_dir().join(format!("hx-{}-{}", property, std::process::id()));
    let _ = std::fs::create_dir_all(&tmp);
    let nworkers = ncpu.max(1).min(queue.len().max(1));
    let q = Arc::new(Mutex::new(queue));
    for wi in 0..nworkers {
        let q = q.clone();
        let merged = merged.clone();
        let plan = plan.clone();
        let property = property.to_string();
        let markdir = tmp.to_string_lossy().to_string();
        handles.push(std::thread::spawn(move || {
            supervise_slot(&property, tier, wi, &markdir, q, merged, plan, deadline_ms);
        }));
    }
    for h in handles {
        let _ = h.join();
    }
    let _ = std::fs::remove_dir_all(&tmp);
    let m = Arc::try_unwrap(merged).ok().unwrap().into_inner().unwrap();
    finish(&plan, tier, seed, m, t0)
}

struct Proc {
    child: std::process::Child,
    stdin: std::process::ChildStdin,
    stdout: BufReader<std::process::ChildStdout>,
    markfile: String,
}

fn spawn_worker(property: &str, tier: Tier, profile: &str, markfile: &str) -> Result<Proc, String> {
    let mut child = Command::new(binary_for(profile))
        .args(["worker", property, tier.name(), markfile])
        .stdin(Stdio::piped())
        .stdout(Stdio::piped())
        .stderr(Stdio::piped())
        .spawn()
        .map_err(|e| format!("cannot start worker {}: {e}", binary_for(profile)))?;
    let stdin = child.stdin.take().unwrap();
    let stdout = BufReader::new(child.stdout.take().unwrap());
    Ok(Proc {
        child,
        stdin,
        stdout,
        markfile: markfile.to_string(),
    })
}

/// One of the 16 slots: pulls units from the shared queue and hands each to a worker process
/// of the unit's build profile (at most one live process per profile per slot).
#[allow(clippy::too_many_arguments)]
fn supervise_slot(property: &str, tier: Tier, slot: usize, markdir: &str, q: Arc<Mutex<VecDeque<Unit>>>, merged: Arc<Mutex<Merged>>, plan: Arc<Plan>, deadline_ms: u64) {
    let mut procs: BTreeMap<&'static str, Proc> = BTreeMap::new();
    loop {
        let unit = {
            let mut q = q.lock().unwrap();
            if now_ms() > deadline_ms {
                let left = q.len();
                if left > 0 {
                    q.clear();
                    merged.lock().unwrap().caps.push(format!("wall budget reached: {left} units not started"));
                }
                None
            } else {
                q.pop_front()
            }
        };
        let Some(unit) = unit else { break };
        let job = &plan.jobs[unit.job];
        let profile = job.profile;
        if !procs.contains_key(profile) {
            match spawn_worker(property, tier, profile, &format!("{markdir}/mark-{profile}-{slot}")) {
                Ok(p) => {
                    procs.insert(profile, p);
                }
                Err(e) => {
                    merged.lock().unwrap().machinery.push(e);
                    return;
                }
            }
        }
        let p = procs.get_mut(profile).unwrap();
        let mut line = String::new();
        let sent = writeln!(p.stdin, "{} {} {}", unit.job, unit.unit, deadline_ms).is_ok();
        let n = if sent { p.stdout.read_line(&mut line).unwrap_or(0) } else { 0 };
        if n == 0 {
            // the worker died inside this unit: abort, stack overflow or hang
            let mut p = procs.remove(profile).unwrap();
            let status = p.child.wait().ok();
            let mut err = String::new();
            if let Some(mut e) = p.child.stderr.take() {
                use std::io::Read;
                let _ = e.read_to_string(&mut err);
            }
            let how = match status.and_then(|s| s.code()) {
                Some(3) => "hang",
                Some(c) if c != 0 => "exit",
                _ => "abort",
            };
            let mut rec = json!({"job": unit.job, "family": job.family, "unit": unit.unit, "profile": profile, "how": how,
                                 "stderr": err.lines().rev().take(6).collect::<Vec<_>>().into_iter().rev().collect::<Vec<_>>().join("\n")});
            if let Some((_j, _u, choices)) = read_marker(&p.markfile) {
                if let Some((prog, hist)) = history_from_choices(job, unit.unit, tier, &choices) {
                    rec["prog"] = prog;
                    rec["history"] = json!(hist);
                }
            }
            merged.lock().unwrap().aborted.push(rec);
            continue;
        }
        match serde_json::from_str::<Json>(&line) {
            Ok(j) => merge(&mut merged.lock().unwrap(), &j, &plan),
            Err(e) => merged.lock().unwrap().machinery.push(format!("bad worker output: {e}: {}", &line[..line.len().min(200)])),
        }
    }
    for (_k, mut p) in procs {
        let _ = writeln!(p.stdin, "quit");
        let _ = p.child.wait();
    }
}

fn merge(m: &mut Merged, j: &Json, plan: &Plan) {
    let u = |k: &str| j.get(k).and_then(|v| v.as_u64()).unwrap_or(0);
    m.units_done += 1;
    m.programs += u("programs");
    m.states += u("states");
    m.transitions += u("transitions");
    m.histories += u("histories");
    m.replay_steps += u("replay_steps");
    m.pruned += u("pruned");
    m.max_depth = m.max_depth.max(u("max_depth"));
    m.min_depth = m.min_depth.min(u("min_depth"));
    m.exhausted += u("exhausted");
    m.congruence += u("congruence");
    m.traces += u("traces");
    let ji = u("job") as usize;
    {
        let e = m.per_job.entry(ji).or_insert_with(|| {
            let job = &plan.jobs[ji];
            json!({"family": job.family, "world": job.world, "profile": job.profile, "depth_bound": job.depth, "pruned_on_digest": job.prune,
                   "handler_order": job.handler_order.map(|a| if a { "asc" } else { "desc" }), "units": job.units,
                   "programs": 0, "states": 0, "transitions": 0, "exhausted_programs": 0, "capped_units": 0, "wall_s": 0.0})
        });
        for (k, src) in [("programs", "programs"), ("states", "states"), ("transitions", "transitions"), ("exhausted_programs", "exhausted")] {
            e[k] = json!(e[k].as_u64().unwrap_or(0) + u(src));
        }
        e["wall_s"] = json!(e["wall_s"].as_f64().unwrap_or(0.0) + j.get("wall_s").and_then(|v| v.as_f64()).unwrap_or(0.0));
        if j.get("caps").and_then(|c| c.as_array()).map_or(false, |c| !c.is_empty()) {
            e["capped_units"] = json!(e["capped_units"].as_u64().unwrap_or(0) + 1);
        }
    }
    if let Some(c) = j.get("caps").and_then(|c| c.as_array()) {
        for x in c {
            if m.caps.len() < 20 {
                m.caps.push(format!("{}: {}", plan.jobs[ji].family, x.as_str().unwrap_or("")));
            }
        }
    }
    if let Some(c) = j.get("counters").and_then(|c| c.as_object()) {
        for (k, v) in c {
            *m.counters.entry(k.clone()).or_insert(0) += v.as_u64().unwrap_or(0);
        }
    }
    if let Some(f) = j.get("found").and_then(|c| c.as_array()) {
        for x in f {
            let sig = x["viol"]["sig"].as_str().unwrap_or("").to_string();
            let job = &plan.jobs[ji];
            let mut x = x.clone();
            x["family"] = json!(job.family);
            x["world"] = json!(job.world);
            x["profile"] = json!(job.profile);
            x["handler_order"] = json!(job.handler_order);
            x["armed"] = json!(job.armed);
            let key = format!("{}|{}", x["viol"]["property"].as_str().unwrap_or(""), sig);
            match m.found.get_mut(&key) {
                Some(old) => {
                    let occ = old["occurrences"].as_u64().unwrap_or(0) + x["occurrences"].as_u64().unwrap_or(0);
                    let shorter = x["history"].as_array().map_or(0, |a| a.len()) < old["history"].as_array().map_or(0, |a| a.len());
                    if shorter {
                        *old = x;
                    }
                    old["occurrences"] = json!(occ);
                }
                None => {
                    m.found.insert(key, x);
                }
            }
        }
    }
    if let Some(s) = j.get("samples").and_then(|c| c.as_array()) {
        for x in s {
            if m.samples.len() < 4 {
                let mut x = x.clone();
                x["family"] = json!(plan.jobs[ji].family);
                m.samples.push(x);
            }
        }
    }
    if let Some(s) = j.get("machinery").and_then(|c| c.as_array()) {
        for x in s {
            if m.machinery.len() < 10 {
                m.machinery.push(x.as_str().unwrap_or("").to_string());
            }
        }
    }
}

pub struct Known {
    pub entries: Vec<Json>,
}

impl Known {
    pub fn load() -> Known {
        let mut entries = vec![];
        if let Ok(s) = std::fs::read_to_string(format!("{}/known_findings.jsonl", verif_dir())) {
            for l in s.lines() {
                let l = l.trim();
                if l.is_empty() || l.starts_with('#') {
                    continue;
                }
                if let Ok(j) = serde_json::from_str::<Json>(l) {
                    entries.push(j);
                }
            }
        }
        Known { entries }
    }
    /// a *known* (not fixed) finding that covers this violation
    pub fn matches(&self, property: &str, sig: &str) -> Option<&Json> {
        self.entries.iter().find(|e| {
            e["status"].as_str() == Some("known")
                && e["property"].as_str() == Some(property)
                && e["sig"].as_str().map_or(false, |s| sig == s || (s.ends_with('*') && sig.starts_with(&s[..s.len() - 1])))
        })
    }
}

fn finish(plan: &Plan, tier: Tier, seed: i64, mut m: Merged, t0: Instant) -> i32 {
    let known = Known::load();
    let property = plan.property;
    let _ = std::fs::create_dir_all(format!("{}/evidence", verif_dir()));
    let _ = std::fs::create_dir_all(format!("{}/replays", verif_dir()));
    // aborts / hangs
    let abort_counts = matches!(property, "C04" | "C12" | "C13" | "C19") || plan.jobs.iter().any(|j| j.armed.contains(&"C04"));
    let mut abort_diag = vec![];
    for a in m.aborted.drain(..) {
        if abort_counts {
            let sig = format!("{}.{}:{}", property, a["how"].as_str().unwrap_or("abort"), a["family"].as_str().unwrap_or(""));
            let job = &plan.jobs[a["job"].as_u64().unwrap_or(0) as usize];
            m.found.insert(
                format!("{property}|{sig}"),
                json!({"viol": {"property": property, "rule": format!("{property}.{}", a["how"].as_str().unwrap_or("abort")), "sig": sig,
                                 "detail": format!("worker process died ({}) while executing the last action of this history; stderr tail: {}", a["how"].as_str().unwrap_or(""), a["stderr"].as_str().unwrap_or(""))},
                       "prog": a["prog"], "history": a["history"], "explain": "", "occurrences": 1,
                       "family": job.family, "world": job.world, "profile": job.profile, "handler_order": job.handler_order, "armed": job.armed}),
            );
        } else {
            abort_diag.push(a);
        }
    }
    let mut violations = vec![];
    let mut known_lines = vec![];
    let mut other_props: BTreeMap<String, u64> = BTreeMap::new();
    for (_k, f) in m.found.iter() {
        let p = f["viol"]["property"].as_str().unwrap_or("");
        let sig = f["viol"]["sig"].as_str().unwrap_or("");
        if p == "MACHINERY" {
            let path = format!("{}/replays/MACHINERY-{}.json", verif_dir(), m.machinery.len());
            let r = json!({"property": "MACHINERY", "world": f["world"], "family": f["family"], "profile": f["profile"], "handler_order": f["handler_order"],
                           "armed": f["armed"], "program": f["prog"], "history": f["history"], "sig": sig, "detail": f["viol"]["detail"]});
            let _ = std::fs::write(&path, serde_json::to_string_pretty(&r).unwrap());
            m.machinery.push(format!("{} (history in {path})", f["viol"]["detail"].as_str().unwrap_or("")));
            continue;
        }
        if p != property {
            *other_props.entry(p.to_string()).or_insert(0) += 1;
            continue;
        }
        if let Some(k) = known.matches(p, sig) {
            known_lines.push(format!("KNOWN-FINDING: property={} {} [{}]", p, k["what"].as_str().unwrap_or(sig), sig));
        } else {
            violations.push(f.clone());
        }
    }
    violations.sort_by_key(|f| (f["history"].as_array().map_or(0, |a| a.len()), f["viol"]["sig"].as_str().unwrap_or("").to_string()));
    let mut replay_paths = vec![];
    for (i, f) in violations.iter().enumerate() {
        let sig = f["viol"]["sig"].as_str().unwrap_or("");
        let safe: String = sig.chars().map(|c| if c.is_ascii_alphanumeric() || c == '.' || c == '-' { c } else { '_' }).take(60).collect();
        let path = format!("{}/replays/{property}-{}-{i}-{safe}.json", verif_dir(), tier.name());
        let r = json!({
            "property": property, "world": f["world"], "family": f["family"], "profile": f["profile"], "handler_order": f["handler_order"],
            "armed": f["armed"], "program": f["prog"], "history": f["history"], "rule": f["viol"]["rule"], "sig": sig,
            "detail": f["viol"]["detail"], "found_by": format!("{} tier, shortest of {} occurrences", tier.name(), f["occurrences"]),
        });
        let _ = std::fs::write(&path, serde_json::to_string_pretty(&r).unwrap());
        replay_paths.push(path);
    }
    let exhaustive = m.caps.is_empty() && m.units_done == m.units_total;
    let distinct = match plan.distinct_counter {
        Some(c) => m.counters.get(c).copied().unwrap_or(0),
        None => m.states,
    };
    let mut samples = m.samples.clone();
    if samples.is_empty() {
        samples.push(json!({"note": "no history sample returned by workers"}));
    }
    let wall = t0.elapsed().as_secs_f64();
    let ev = json!({
        "property_id": property,
        "tier": tier.name(),
        "seed": seed,
        "level": plan.level,
        "wall_s": wall,
        "violations": violations.len(),
        "assumptions": plan.assumptions,
        "coverage": {
            "states": m.states,
            "transitions": m.transitions,
            "traces_validated_against_impl": m.histories,
            "samples": samples,
            "evaluations": m.histories,
            "distinct_nontrivial": distinct,
            "rule": plan.rule,
            "programs": m.programs,
            "exhaustive": exhaustive,
            "exhaustive_note": "exhaustive means: every unit of every job ran to its stated depth bound (or to an empty frontier) without hitting a state or wall cap",
            "programs_fully_explored_to_fixpoint": m.exhausted,
            "depth_completed_min": if m.min_depth == u64::MAX { 0 } else { m.min_depth },
            "depth_completed_max": m.max_depth,
            "pruned_duplicate_states": m.pruned,
            "engine_steps_executed_incl_replay": m.replay_steps + m.transitions,
            "distinct_observation_traces_summed_over_units": m.traces,
            "abstraction_congruence_checks": m.congruence,
            "units_done": m.units_done,
            "units_total": m.units_total,
            "caps_hit": m.caps,
            "witness_counters": m.counters,
            "jobs": m.per_job.values().collect::<Vec<_>>(),
            "known_findings_observed": known_lines,
            "violations_of_other_properties_seen_not_judged_here": other_props,
            "aborted_histories_not_judged": abort_diag,
            "machinery_errors": m.machinery,
            "seed_note": "exploration is exhaustive within bounds and deterministic; the seed selects nothing",
        }
    });
    let _ = std::fs::write(format!("{}/evidence/{property}.json", verif_dir()), serde_json::to_string_pretty(&ev).unwrap());
    for l in known_lines.iter() {
        println!("{l}");
    }
    println!(
        "{property} {}: programs={} states={} transitions={} histories={} depth={}..{} exhaustive={} wall={:.1}s violations={}",
        tier.name(),
        m.programs,
        m.states,
        m.transitions,
        m.histories,
        if m.min_depth == u64::MAX { 0 } else { m.min_depth },
        m.max_depth,
        exhaustive,
        wall,
        violations.len()
    );
    if !m.machinery.is_empty() {
        for e in m.machinery.iter().take(5) {
            eprintln!("MACHINERY ERROR: {}", &e[..e.len().min(1500)]);
        }
        return 2;
    }
    if !violations.is_empty() {
        for (f, p) in violations.iter().zip(replay_paths.iter()) {
            println!("VIOLATION property={property} replay={p}");
            println!("  rule={} : {}", f["viol"]["sig"].as_str().unwrap_or(""), f["viol"]["detail"].as_str().unwrap_or(""));
        }
        return 1;
    }
    if m.units_done == 0 {
        eprintln!("MACHINERY ERROR: no unit completed");
        return 2;
    }
    0
}

// ------------------------------------------------------------------------------------ replay

pub fn replay_file(path: &str) -> i32 {
    let Ok(s) = std::fs::read_to_string(path) else {
        eprintln!("cannot read {path}");
        return 2;
    };
    let Ok(r) = serde_json::from_str::<Json>(&s) else {
        eprintln!("cannot parse {path}");
        return 2;
    };
    let want_profile = r["profile"].as_str().unwrap_or("rel");
    if want_profile != profile() {
        // hand over to the binary built with the right profile
        let st = Command::new(binary_for(want_profile)).args(["replay", path]).status();
        return st.ok().and_then(|s| s.code()).unwrap_or(2);
    }
    let armed: Vec<&'static str> = r["armed"]
        .as_array()
        .map(|a| a.iter().filter_map(|x| x.as_str().and_then(static_property)).collect())
        .unwrap_or_default();
    let cfg = Cfg {
        profile: profile(),
        handler_order: r["handler_order"].as_bool(),
        armed,
    };
    let world = r["world"].as_str().unwrap_or("graph");
    let hist: Vec<Json> = r["history"].as_array().cloned().unwrap_or_default();
    let run = || crate::plan::replay(world, &cfg, &r["program"], &hist);
    let (a, b) = (run(), run());
    let (Ok((v1, e1, h1)), Ok((v2, e2, h2))) = (a, b) else {
        eprintln!("replay failed to parse the file");
        return 2;
    };
    let s1: Vec<_> = v1.iter().map(|(i, v)| (*i, v.sig.clone())).collect();
    let s2: Vec<_> = v2.iter().map(|(i, v)| (*i, v.sig.clone())).collect();
    if s1 != s2 || e1 != e2 || h1 != h2 {
        eprintln!("MACHINERY ERROR: two executions of the same history diverged");
        return 2;
    }
    println!("replay of {path} (profile {}, property {}, family {})", profile(), r["property"], r["family"]);
    println!("program: {}", r["program"]);
    for (i, a) in hist.iter().enumerate() {
        println!("  step {i}: {a}");
        if let Some(e) = e1.get(i) {
            if !e.is_empty() {
                println!("      {e}");
            }
        }
        for (j, v) in v1.iter() {
            if *j == i {
                println!("      !! {} [{}] {}", v.property, v.sig, v.detail);
            }
        }
    }
    let sig = r["sig"].as_str().unwrap_or("");
    let prop = r["property"].as_str().unwrap_or("");
    if v1.iter().any(|(_, v)| v.sig == sig && v.property == prop) {
        println!("VIOLATION property={prop} replay={path}");
        1
    } else {
        println!("the recorded rule {sig} no longer fails on this history");
        0
    }
}
