mod core;
mod driver;
mod explore;
mod drops;
mod expert;
mod graph;
mod limits;
mod maps;
mod memo;
mod pkmaps;
mod plan;
mod vars;
mod supervisor;
mod val;

use crate::core::*;
use explore::*;
use std::time::Instant;

fn main() {
    install_panic_hook();
    let args: Vec<String> = std::env::args().collect();
    match args.get(1).map(|s| s.as_str()) {
        Some("dev") => dev(&args[2..]),
        Some("check") => {
            let tier = if args.get(3).map(|s| s.as_str()) == Some("thorough") { plan::Tier::Thorough } else { plan::Tier::Quick };
            std::process::exit(supervisor::check(&args[2], tier));
        }
        Some("worker") => std::process::exit(supervisor::worker(&args[2..])),
        Some("replay") => std::process::exit(supervisor::replay_file(&args[2])),
        Some("bench-canon") => {
            // micro-benchmark of the digest pipeline on one mid-history state
            use crate::core::World;
            let progs = graph::families::family("c01/catalogue", plan::Tier::Quick);
            let cfg = Cfg { profile: profile(), handler_order: Some(true), armed: vec!["C01"] };
            let mut w = graph::world::GraphWorld::new(&progs[0], &cfg);
            for _ in 0..4 {
                let acts = w.enabled();
                let a = acts[acts.len() / 2].clone();
                let _ = w.step(&a, false);
                let _ = w.step(&graph::prog::Act::Stabilise, false);
            }
            let n = 100_000;
            let t = Instant::now();
            let mut len = 0;
            for _ in 0..n {
                len += w.state.verif_dump().len();
            }
            println!("verif_dump: {:.2} us ({} bytes)", t.elapsed().as_secs_f64() * 1e6 / n as f64, len / n);
            let d = w.state.verif_dump();
            let t = Instant::now();
            for _ in 0..n {
                len += canonicalise_dump(&d).len();
            }
            println!("canonicalise(engine dump): {:.2} us", t.elapsed().as_secs_f64() * 1e6 / n as f64);
            let t = Instant::now();
            for _ in 0..n {
                len += w.model.dump().len();
            }
            println!("model.dump: {:.2} us", t.elapsed().as_secs_f64() * 1e6 / n as f64);
            let c = w.canon().unwrap();
            let t = Instant::now();
            let mut x = 0u64;
            for _ in 0..n {
                x ^= hash128(&c).0;
            }
            println!("hash128: {:.2} us ({} bytes) {x}", t.elapsed().as_secs_f64() * 1e6 / n as f64, c.len());
            let t = Instant::now();
            for _ in 0..n {
                len += w.canon().unwrap().len();
            }
            println!("canon total: {:.2} us {len}", t.elapsed().as_secs_f64() * 1e6 / n as f64);
        }
        Some("plan-table") => {
            // markdown table of what every check runs (for DESIGN.md)
            for p in plan::ALL_PROPERTIES {
                for tier in [plan::Tier::Quick, plan::Tier::Thorough] {
                    let Some(pl) = plan::plan(p, tier) else { continue };
                    let jobs: Vec<String> = pl
                        .jobs
                        .iter()
                        .map(|j| {
                            format!(
                                "{}:{}{}@{}{}{}",
                                j.world,
                                j.family,
                                if j.profile == "dbg" { "[dbg]" } else { "" },
                                j.depth,
                                if j.prune { "" } else { " unpruned" },
                                if j.split_first { " split" } else { "" }
                            )
                        })
                        .collect();
                    println!("| {} | {} | {} | {} |", p, tier.name(), pl.level, jobs.join("; "));
                }
            }
        }
        Some("list") => {
            for (i, p) in graph::families::family(&args[2], plan::Tier::Quick).iter().enumerate() {
                let j = p.to_json();
                println!("{i}: {} observable={} pinned={}", j["nodes"], j["alphabet"]["observable"], j["pinned"]);
            }
        }
        Some("count") => {
            // sizes of a family, for planning
            let tier = plan::Tier::Quick;
            println!("{} programs", graph::families::family(&args[2], tier).len());
        }
        _ => {
            eprintln!("usage: hx dev <catalogue-name|grammarN> <depth>");
            std::process::exit(2);
        }
    }
}

fn dev(args: &[String]) {
    // hx dev <world> <family[#unit]> <depth> [armed=C01,C02] [noprune] [order=desc] [congruence=N] [split]
    let world: &'static str = Box::leak(args.first().cloned().unwrap_or_else(|| "graph".into()).into_boxed_str());
    let which = args.get(1).map(|s| s.as_str()).unwrap_or("c01/catalogue");
    let depth: usize = args.get(2).and_then(|s| s.parse().ok()).unwrap_or(6);
    let (fam, only) = match which.split_once('#') {
        Some((f, i)) => (f, Some(i.parse::<usize>().unwrap())),
        None => (which, None),
    };
    let mut job = plan::JobDef::new(world, fam, profile(), depth);
    job.congruence_depth = 2;
    let tier = plan::Tier::Quick;
    for a in args.iter().skip(3) {
        if a == "noprune" {
            job.prune = false;
        } else if a == "split" {
            job.split_first = true;
        } else if let Some(x) = a.strip_prefix("armed=") {
            job.armed = x.split(',').filter_map(plan::static_property).collect();
        } else if let Some(x) = a.strip_prefix("order=") {
            job.handler_order = Some(x != "desc");
        } else if let Some(x) = a.strip_prefix("congruence=") {
            job.congruence_depth = x.parse().unwrap();
        } else if let Some(x) = a.strip_prefix("maxstates=") {
            job.max_states = x.parse().unwrap();
        }
    }
    let units = plan::resolve_units(&job, tier);
    let t0 = Instant::now();
    let mut stats = Stats::new();
    let marker = Marker::none();
    for u in 0..units {
        if only.map_or(true, |o| o == u) {
            plan::run_unit(&job, 0, u, tier, None, &marker, &mut stats);
        }
    }
    println!(
        "profile={} units={} programs={} states={} transitions={} replay_steps={} pruned={} depth={}..{} exhausted={} traces={} congruence={} wall={:.2}s",
        profile(),
        units,
        stats.programs,
        stats.states,
        stats.transitions,
        stats.replay_steps,
        stats.pruned,
        stats.min_depth_completed,
        stats.max_depth_completed,
        stats.programs_exhausted,
        stats.observation_traces.len(),
        stats.congruence_checked,
        t0.elapsed().as_secs_f64()
    );
    println!("counters: {:?}", stats.counters);
    println!("caps: {:?}", stats.caps);
    for e in stats.machinery_errors.iter().take(3) {
        println!("MACHINERY: {e}");
    }
    let mut found: Vec<_> = stats.found.values().collect();
    found.sort_by_key(|f| (f.history.len(), f.viol.sig.clone()));
    for f in found {
        println!(
            "--- [{}] {} x{} len={}\n    {}\n    prog={}\n    hist={}\n    {}",
            f.viol.property,
            f.viol.sig,
            f.occurrences,
            f.history.len(),
            f.viol.detail,
            serde_json::to_string(&f.prog).unwrap(),
            serde_json::to_string(&f.history).unwrap(),
            f.explain
        );
    }
    if let Some(s) = stats.samples.first() {
        println!("sample: {}", serde_json::to_string(s).unwrap());
    }
}
