mod core;
mod driver;
mod explore;
mod graph;
mod plan;
mod supervisor;
mod val;

use crate::core::*;
use explore::*;
use graph::families;
use graph::world::GraphWorld;
use std::time::Instant;

fn main() {
    install_panic_hook();
    let args: Vec<String> = std::env::args().collect();
    match args.get(1).map(|s| s.as_str()) {
        Some("dev") => dev(&args[2..]),
        Some("check") => {
            let tier = if args.get(3).map(|s| s.as_str()) == Some("thorough") { plan::Tier::Thorough } else { plan::Tier::Quick };
            std::process::exit(supervisor::check(&args[2], tier));
        }
        Some("worker") => std::process::exit(supervisor::worker(&args[2..])),
        Some("replay") => std::process::exit(supervisor::replay_file(&args[2])),
        Some("list") => {
            for (i, p) in graph::families::family(&args[2], plan::Tier::Quick).iter().enumerate() {
                let j = p.to_json();
                println!("{i}: {} observable={} pinned={}", j["nodes"], j["alphabet"]["observable"], j["pinned"]);
            }
        }
        Some("count") => {
            // sizes of a family, for planning
            let tier = plan::Tier::Quick;
            println!("{} programs", graph::families::family(&args[2], tier).len());
        }
        _ => {
            eprintln!("usage: hx dev <catalogue-name|grammarN> <depth>");
            std::process::exit(2);
        }
    }
}

fn dev(args: &[String]) {
    let which = args.first().map(|s| s.as_str()).unwrap_or("sibling");
    let depth: usize = args.get(1).and_then(|s| s.parse().ok()).unwrap_or(6);
    let cfg = Cfg {
        profile: profile(),
        handler_order: Some(true),
        armed: vec![],
    };
    let opts = Opts {
        max_depth: depth,
        prune: true,
        max_states: 2_000_000,
        deadline: None,
        congruence_depth: 3,
    };
    let progs: Vec<graph::prog::Prog> = if which.contains('/') {
        let (fam, idx) = match which.split_once('#') {
            Some((f, i)) => (f, Some(i.parse::<usize>().unwrap())),
            None => (which, None),
        };
        let all = families::family(fam, plan::Tier::Quick);
        match idx {
            Some(i) => vec![all[i].clone()],
            None => all,
        }
    } else if let Some(n) = which.strip_prefix("grammar") {
        let n: usize = n.parse().unwrap();
        families::grammar(&families::Menu::core(), 2, n)
    } else {
        families::catalogue().into_iter().filter(|(n, _)| *n == which || which == "all").map(|(_, p)| p).collect()
    };
    let t0 = Instant::now();
    let mut stats = Stats::new();
    let marker = Marker::none();
    for (i, p) in progs.iter().enumerate() {
        bfs::<GraphWorld>(p, &cfg, &opts, (0, i as u32), &marker, &mut stats);
    }
    println!(
        "profile={} programs={} states={} transitions={} replay_steps={} pruned={} depth={}..{} exhausted={} traces={} congruence={} wall={:.2}s",
        profile(),
        stats.programs,
        stats.states,
        stats.transitions,
        stats.replay_steps,
        stats.pruned,
        stats.min_depth_completed,
        stats.max_depth_completed,
        stats.programs_exhausted,
        stats.observation_traces.len(),
        stats.congruence_checked,
        t0.elapsed().as_secs_f64()
    );
    println!("counters: {:?}", stats.counters);
    println!("caps: {:?}", stats.caps);
    for e in stats.machinery_errors.iter().take(3) {
        println!("MACHINERY: {e}");
    }
    let mut found: Vec<_> = stats.found.values().collect();
    found.sort_by_key(|f| (f.history.len(), f.viol.sig.clone()));
    for f in found {
        println!(
            "--- {} x{} len={}\n    {}\n    prog={}\n    hist={}\n    {}",
            f.viol.sig,
            f.occurrences,
            f.history.len(),
            f.viol.detail,
            serde_json::to_string(&f.prog.get("nodes")).unwrap(),
            serde_json::to_string(&f.history).unwrap(),
            f.explain
        );
    }
}
