//! Scenario families of the graph world: grammar enumeration of small programs plus a
//! catalogue of hand-written shapes (DESIGN §3, §6).

use super::prog::*;
use crate::val::*;

fn n(r: Recipe) -> NodeSpec {
    NodeSpec::new(r)
}
fn var(i: i32) -> NodeSpec {
    n(Recipe::Var(i))
}
fn map(f: F1, a: u8) -> NodeSpec {
    n(Recipe::Map(f, a))
}
fn map2(f: F2, a: u8, b: u8) -> NodeSpec {
    n(Recipe::Map2(f, a, b))
}
fn bind(lhs: u8, even: Rhs, odd: Rhs) -> NodeSpec {
    n(Recipe::Bind { lhs, even, odd })
}

/// Which node kinds a grammar may use.
#[derive(Clone, Debug)]
pub struct Menu {
    pub map_fns: Vec<F1>,
    pub map2_fns: Vec<F2>,
    pub map_ref: bool,
    pub map_with_old: bool,
    pub fold: bool,
    pub zip: bool,
    pub depend_on: bool,
    pub bind_rhs: Vec<&'static str>, // subset of E F FC FG F2
}

impl Menu {
    pub fn core() -> Menu {
        Menu {
            map_fns: vec![F1::Inc, F1::Par],
            map2_fns: vec![F2::Mix, F2::Max],
            map_ref: false,
            map_with_old: false,
            fold: false,
            zip: false,
            depend_on: false,
            bind_rhs: vec!["E", "F"],
        }
    }
    pub fn one_fn() -> Menu {
        Menu {
            map_fns: vec![F1::Inc],
            map2_fns: vec![F2::Mix],
            ..Menu::core()
        }
    }
}

fn rhs_options(menu: &Menu, avail: u8) -> Vec<Rhs> {
    let mut v = vec![];
    for k in menu.bind_rhs.iter() {
        match *k {
            "FC" => v.push(Rhs::FC),
            "E" => (0..avail).for_each(|x| v.push(Rhs::E(x))),
            "F" => (0..avail).for_each(|x| v.push(Rhs::F(x))),
            "FG" => (0..avail).for_each(|x| v.push(Rhs::FG(x))),
            "FF" => (0..avail).for_each(|x| v.push(Rhs::FF(x))),
            _ => {}
        }
    }
    v
}

fn recipes_over(menu: &Menu, avail: u8) -> Vec<Recipe> {
    let mut v = vec![];
    for a in 0..avail {
        for f in menu.map_fns.iter() {
            v.push(Recipe::Map(*f, a));
        }
        if menu.map_ref {
            v.push(Recipe::MapRef(a));
        }
        if menu.map_with_old {
            v.push(Recipe::MapWithOld(a));
        }
    }
    for a in 0..avail {
        for b in 0..avail {
            for f in menu.map2_fns.iter() {
                // max is symmetric
                if *f == F2::Max && b < a {
                    continue;
                }
                v.push(Recipe::Map2(*f, a, b));
            }
            if menu.zip {
                v.push(Recipe::Zip(a, b));
            }
            if menu.depend_on && a != b {
                v.push(Recipe::DependOn(a, b));
            }
            if menu.fold && a <= b {
                v.push(Recipe::Fold(vec![a, b]));
            }
        }
    }
    let rhs = rhs_options(menu, avail);
    for lhs in 0..avail {
        for e in rhs.iter() {
            for o in rhs.iter() {
                v.push(Recipe::Bind {
                    lhs,
                    even: e.clone(),
                    odd: o.clone(),
                });
            }
        }
    }
    v
}

/// every derived node must be used by a later node or be a sink; every var must be used
fn connected(nodes: &[NodeSpec], nvars: usize) -> bool {
    let mut used = vec![false; nodes.len()];
    for s in nodes.iter() {
        for i in s.recipe.inputs() {
            used[i as usize] = true;
        }
    }
    // all vars used
    if !(0..nvars).all(|i| used[i]) {
        return false;
    }
    true
}

/// canonical under renaming of the two vars: keep the program if swapping var 0 and var 1
/// does not give a lexicographically smaller recipe list
fn canonical_under_var_swap(nodes: &[NodeSpec], nvars: usize) -> bool {
    if nvars != 2 {
        return true;
    }
    let sw = |x: u8| match x {
        0 => 1,
        1 => 0,
        y => y,
    };
    fn swr(r: &Rhs, sw: &dyn Fn(u8) -> u8) -> Rhs {
        match r {
            Rhs::E(x) => Rhs::E(sw(*x)),
            Rhs::F(x) => Rhs::F(sw(*x)),
            Rhs::FG(x) => Rhs::FG(sw(*x)),
            Rhs::FF(x) => Rhs::FF(sw(*x)),
            Rhs::ST(x) => Rhs::ST(sw(*x)),
            Rhs::FC => Rhs::FC,
            Rhs::NB(l, e, o) => Rhs::NB(sw(*l), Box::new(swr(e, sw)), Box::new(swr(o, sw))),
        }
    }
    let swapped: Vec<String> = nodes
        .iter()
        .map(|s| {
            let r = match &s.recipe {
                Recipe::Map(f, a) => Recipe::Map(*f, sw(*a)),
                Recipe::MapRef(a) => Recipe::MapRef(sw(*a)),
                Recipe::MapWithOld(a) => Recipe::MapWithOld(sw(*a)),
                Recipe::Map2(f, a, b) => Recipe::Map2(*f, sw(*a), sw(*b)),
                Recipe::Zip(a, b) => Recipe::Zip(sw(*a), sw(*b)),
                Recipe::DependOn(a, b) => Recipe::DependOn(sw(*a), sw(*b)),
                Recipe::Fold(v) => Recipe::Fold(v.iter().map(|x| sw(*x)).collect()),
                Recipe::MapN(v) => Recipe::MapN(v.iter().map(|x| sw(*x)).collect()),
                Recipe::Bind { lhs, even, odd } => Recipe::Bind {
                    lhs: sw(*lhs),
                    even: swr(even, &sw),
                    odd: swr(odd, &sw),
                },
                r => r.clone(),
            };
            format!("{r:?}")
        })
        .collect();
    let orig: Vec<String> = nodes.iter().map(|s| format!("{:?}", s.recipe)).collect();
    orig <= swapped
}

/// All programs with exactly `derived` derived nodes over `nvars` vars from `menu`.
pub fn grammar(menu: &Menu, nvars: usize, derived: usize) -> Vec<Prog> {
    let mut out = vec![];
    let base: Vec<NodeSpec> = (0..nvars).map(|i| var(i as i32)).collect();
    fn rec(menu: &Menu, nvars: usize, left: usize, cur: Vec<NodeSpec>, out: &mut Vec<Prog>) {
        if left == 0 {
            if connected(&cur, nvars) && canonical_under_var_swap(&cur, nvars) {
                out.push(Prog::new(cur));
            }
            return;
        }
        let avail = cur.len() as u8;
        for r in recipes_over(menu, avail) {
            let mut c = cur.clone();
            c.push(n(r));
            rec(menu, nvars, left - 1, c, out);
        }
    }
    rec(menu, nvars, derived, base, &mut out);
    out
}

/// Hand-written shapes the grammar does not reach at small sizes.
pub fn catalogue() -> Vec<(&'static str, Prog)> {
    use Rhs::*;
    let mut v: Vec<(&'static str, Prog)> = vec![];
    // the 4-node sibling shape: t = v.map; s = t.map; B = v.bind(_ => s.map(h))
    v.push((
        "sibling",
        Prog::new(vec![var(1), map(F1::Inc, 0), map(F1::Inc, 1), bind(0, F(2), F(2))]),
    ));
    v.push((
        "sibling_existing",
        Prog::new(vec![var(1), map(F1::Inc, 0), map(F1::Inc, 1), bind(0, E(2), F(2))]),
    ));
    v.push((
        "chain5",
        Prog::new(vec![var(0), map(F1::Inc, 0), map(F1::Par, 1), map(F1::Inc, 2), map(F1::Half, 3), map(F1::Inc, 4)]),
    ));
    v.push((
        "diamond",
        Prog::new(vec![var(0), map(F1::Inc, 0), map(F1::Par, 0), map2(F2::Mix, 1, 2)]),
    ));
    v.push(("self_map2", Prog::new(vec![var(0), map2(F2::Mix, 0, 0)])));
    v.push((
        "map3456",
        Prog::new(vec![
            var(0),
            var(1),
            map(F1::Inc, 0),
            n(Recipe::MapN(vec![0, 1, 2])),
            n(Recipe::MapN(vec![0, 1, 2, 3])),
            n(Recipe::MapN(vec![0, 1, 2, 3, 4])),
            n(Recipe::MapN(vec![0, 1, 2, 3, 4, 5])),
        ]),
    ));
    v.push((
        "fold3_dup",
        Prog::new(vec![var(0), var(1), map(F1::Inc, 0), n(Recipe::Fold(vec![0, 1, 2, 0]))]),
    ));
    v.push((
        "zip_mapref",
        Prog::new(vec![var(0), var(1), n(Recipe::Zip(0, 1)), n(Recipe::MapRef(2)), map(F1::Inc, 3)]),
    ));
    v.push((
        "mapref_chain",
        Prog::new(vec![var(0), var(1), n(Recipe::Zip(0, 1)), n(Recipe::MapRef(2)), n(Recipe::MapRef(3)), map2(F2::Mix, 4, 1)]),
    ));
    v.push((
        "map_with_old_chain",
        Prog::new(vec![var(0), n(Recipe::MapWithOld(0)), map(F1::Inc, 1), n(Recipe::MapWithOld(2))]),
    ));
    v.push((
        "depend_on",
        Prog::new(vec![var(0), var(1), n(Recipe::DependOn(0, 1)), map(F1::Inc, 2)]),
    ));
    v.push((
        "bind_own_input",
        Prog::new(vec![var(0), bind(0, E(0), F(0))]),
    ));
    v.push((
        "bind_const",
        Prog::new(vec![var(0), var(1), bind(0, FC, E(1))]),
    ));
    v.push((
        "nested_bind",
        Prog::new(vec![var(0), var(1), map(F1::Inc, 1), bind(0, NB(1, Box::new(F(2)), Box::new(E(1))), F(2))]),
    ));
    v.push((
        "nested_bind_same_lhs",
        Prog::new(vec![var(0), map(F1::Inc, 0), bind(0, NB(0, Box::new(F(1)), Box::new(F(1))), NB(1, Box::new(E(0)), Box::new(F(0))))]),
    ));
    v.push((
        "bind_of_bind",
        Prog::new(vec![var(0), var(1), bind(0, F(1), E(1)), bind(1, E(2), F(2))]),
    ));
    v.push((
        "bind_lhs_is_bind",
        Prog::new(vec![var(0), var(1), bind(0, E(1), F(1)), bind(2, F(0), FC)]),
    ));
    // FG under a bind whose lhs is another bind that grows taller
    v.push((
        "fg_under_growing_bind",
        Prog::new(vec![var(0), var(1), map(F1::Inc, 1), map(F1::Inc, 2), bind(0, E(1), E(3)), bind(4, FG(1), FG(1))]),
    ));
    v.push((
        "fg_simple",
        Prog::new(vec![var(0), var(1), bind(0, FG(1), FG(1)), map(F1::Inc, 2)]),
    ));
    v.push((
        "f2_chain",
        Prog::new(vec![var(0), var(1), map(F1::Inc, 1), bind(0, FF(2), FF(1))]),
    ));
    v.push((
        "two_binds_shared_rhs",
        Prog::new(vec![var(0), var(1), map(F1::Inc, 1), bind(0, E(2), F(2)), bind(0, F(2), E(2)), map2(F2::Mix, 3, 4)]),
    ));
    v.push((
        "sibling_map2",
        Prog::new(vec![var(1), map(F1::Inc, 0), map(F1::Inc, 1), bind(0, F(2), F(2)), map2(F2::Mix, 3, 2)]),
    ));
    v.push((
        "late_creation",
        {
            let mut p = Prog::new(vec![var(0), map(F1::Inc, 0), map(F1::Par, 1), map2(F2::Mix, 0, 2)]);
            p.precreated = 2;
            p
        },
    ));
    v.push((
        "late_bind",
        {
            let mut p = Prog::new(vec![var(0), map(F1::Inc, 0), bind(0, F(1), E(1)), map(F1::Inc, 2)]);
            p.precreated = 2;
            p
        },
    ));
    v
}

pub fn with_alpha(mut p: Prog, f: impl FnOnce(&mut Alphabet)) -> Prog {
    f(&mut p.alpha);
    p
}
