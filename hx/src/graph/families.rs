//! Scenario families of the graph world: grammar enumeration of small programs plus a
//! catalogue of hand-written shapes (DESIGN §3, §6).

use super::prog::*;
use crate::val::*;

fn n(r: Recipe) -> NodeSpec {
    NodeSpec::new(r)
}
fn var(i: i32) -> NodeSpec {
    n(Recipe::Var(i))
}
fn map(f: F1, a: u8) -> NodeSpec {
    n(Recipe::Map(f, a))
}
fn map2(f: F2, a: u8, b: u8) -> NodeSpec {
    n(Recipe::Map2(f, a, b))
}
fn bind(lhs: u8, even: Rhs, odd: Rhs) -> NodeSpec {
    n(Recipe::Bind { lhs, even, odd })
}

/// Which node kinds a grammar may use.
#[derive(Clone, Debug)]
pub struct Menu {
    pub map_fns: Vec<F1>,
    pub map2_fns: Vec<F2>,
    pub map_ref: bool,
    pub map_with_old: bool,
    pub fold: bool,
    pub zip: bool,
    pub depend_on: bool,
    pub bind_rhs: Vec<&'static str>, // subset of E F FC FG F2
}

impl Menu {
    pub fn core() -> Menu {
        Menu {
            map_fns: vec![F1::Inc, F1::Par],
            map2_fns: vec![F2::Mix, F2::Max],
            map_ref: false,
            map_with_old: false,
            fold: false,
            zip: false,
            depend_on: false,
            bind_rhs: vec!["E", "F"],
        }
    }
    pub fn one_fn() -> Menu {
        Menu {
            map_fns: vec![F1::Inc],
            map2_fns: vec![F2::Mix],
            ..Menu::core()
        }
    }
}

fn rhs_options(menu: &Menu, avail: u8) -> Vec<Rhs> {
    let mut v = vec![];
    for k in menu.bind_rhs.iter() {
        match *k {
            "FC" => v.push(Rhs::FC),
            "FV" => {
                v.push(Rhs::FV(false));
                v.push(Rhs::FV(true));
            }
            "E" => (0..avail).for_each(|x| v.push(Rhs::E(x))),
            "F" => (0..avail).for_each(|x| v.push(Rhs::F(x))),
            "FG" => (0..avail).for_each(|x| v.push(Rhs::FG(x))),
            "FF" => (0..avail).for_each(|x| v.push(Rhs::FF(x))),
            _ => {}
        }
    }
    v
}

fn recipes_over(menu: &Menu, avail: u8) -> Vec<Recipe> {
    let mut v = vec![];
    for a in 0..avail {
        for f in menu.map_fns.iter() {
            v.push(Recipe::Map(*f, a));
        }
        if menu.map_ref {
            v.push(Recipe::MapRef(a));
        }
        if menu.map_with_old {
            v.push(Recipe::MapWithOld(a));
        }
    }
    for a in 0..avail {
        for b in 0..avail {
            for f in menu.map2_fns.iter() {
                // max is symmetric
                if *f == F2::Max && b < a {
                    continue;
                }
                v.push(Recipe::Map2(*f, a, b));
            }
            if menu.zip {
                v.push(Recipe::Zip(a, b));
            }
            if menu.depend_on && a != b {
                v.push(Recipe::DependOn(a, b));
            }
            if menu.fold && a <= b {
                v.push(Recipe::Fold(vec![a, b]));
            }
        }
    }
    let rhs = rhs_options(menu, avail);
    for lhs in 0..avail {
        for e in rhs.iter() {
            for o in rhs.iter() {
                v.push(Recipe::Bind {
                    lhs,
                    even: e.clone(),
                    odd: o.clone(),
                });
            }
        }
    }
    v
}

/// every derived node must be used by a later node or be a sink; every var must be used
fn connected(nodes: &[NodeSpec], nvars: usize) -> bool {
    let mut used = vec![false; nodes.len()];
    for s in nodes.iter() {
        for i in s.recipe.inputs() {
            used[i as usize] = true;
        }
    }
    // all vars used
    if !(0..nvars).all(|i| used[i]) {
        return false;
    }
    true
}

/// canonical under renaming of the two vars: keep the program if swapping var 0 and var 1
/// does not give a lexicographically smaller recipe list
fn canonical_under_var_swap(nodes: &[NodeSpec], nvars: usize) -> bool {
    if nvars != 2 {
        return true;
    }
    let sw = |x: u8| match x {
        0 => 1,
        1 => 0,
        y => y,
    };
    fn swr(r: &Rhs, sw: &dyn Fn(u8) -> u8) -> Rhs {
        match r {
            Rhs::E(x) => Rhs::E(sw(*x)),
            Rhs::F(x) => Rhs::F(sw(*x)),
            Rhs::FG(x) => Rhs::FG(sw(*x)),
            Rhs::FF(x) => Rhs::FF(sw(*x)),
            Rhs::ST(x) => Rhs::ST(sw(*x)),
            Rhs::FC => Rhs::FC,
            Rhs::FV(c) => Rhs::FV(*c),
            Rhs::NB(l, e, o) => Rhs::NB(sw(*l), Box::new(swr(e, sw)), Box::new(swr(o, sw))),
        }
    }
    let swapped: Vec<String> = nodes
        .iter()
        .map(|s| {
            let r = match &s.recipe {
                Recipe::Map(f, a) => Recipe::Map(*f, sw(*a)),
                Recipe::MapRef(a) => Recipe::MapRef(sw(*a)),
                Recipe::MapWithOld(a) => Recipe::MapWithOld(sw(*a)),
                Recipe::Map2(f, a, b) => Recipe::Map2(*f, sw(*a), sw(*b)),
                Recipe::Zip(a, b) => Recipe::Zip(sw(*a), sw(*b)),
                Recipe::DependOn(a, b) => Recipe::DependOn(sw(*a), sw(*b)),
                Recipe::Fold(v) => Recipe::Fold(v.iter().map(|x| sw(*x)).collect()),
                Recipe::MapN(v) => Recipe::MapN(v.iter().map(|x| sw(*x)).collect()),
                Recipe::Bind { lhs, even, odd } => Recipe::Bind {
                    lhs: sw(*lhs),
                    even: swr(even, &sw),
                    odd: swr(odd, &sw),
                },
                r => r.clone(),
            };
            format!("{r:?}")
        })
        .collect();
    let orig: Vec<String> = nodes.iter().map(|s| format!("{:?}", s.recipe)).collect();
    orig <= swapped
}

/// All programs with exactly `derived` derived nodes over `nvars` vars from `menu`.
pub fn grammar(menu: &Menu, nvars: usize, derived: usize) -> Vec<Prog> {
    let mut out = vec![];
    let base: Vec<NodeSpec> = (0..nvars).map(|i| var(i as i32)).collect();
    fn rec(menu: &Menu, nvars: usize, left: usize, cur: Vec<NodeSpec>, out: &mut Vec<Prog>) {
        if left == 0 {
            if connected(&cur, nvars) && canonical_under_var_swap(&cur, nvars) {
                out.push(Prog::new(cur));
            }
            return;
        }
        let avail = cur.len() as u8;
        for r in recipes_over(menu, avail) {
            let mut c = cur.clone();
            c.push(n(r));
            rec(menu, nvars, left - 1, c, out);
        }
    }
    rec(menu, nvars, derived, base, &mut out);
    out
}

/// Hand-written shapes the grammar does not reach at small sizes.
pub fn catalogue() -> Vec<(&'static str, Prog)> {
    use Rhs::*;
    let mut v: Vec<(&'static str, Prog)> = vec![];
    // the 4-node sibling shape: t = v.map; s = t.map; B = v.bind(_ => s.map(h))
    v.push((
        "sibling",
        Prog::new(vec![var(1), map(F1::Inc, 0), map(F1::Inc, 1), bind(0, F(2), F(2))]),
    ));
    v.push((
        "sibling_existing",
        Prog::new(vec![var(1), map(F1::Inc, 0), map(F1::Inc, 1), bind(0, E(2), F(2))]),
    ));
    v.push((
        "chain5",
        Prog::new(vec![var(0), map(F1::Inc, 0), map(F1::Par, 1), map(F1::Inc, 2), map(F1::Half, 3), map(F1::Inc, 4)]),
    ));
    v.push((
        "diamond",
        Prog::new(vec![var(0), map(F1::Inc, 0), map(F1::Par, 0), map2(F2::Mix, 1, 2)]),
    ));
    v.push(("self_map2", Prog::new(vec![var(0), map2(F2::Mix, 0, 0)])));
    v.push((
        "map3456",
        Prog::new(vec![
            var(0),
            var(1),
            map(F1::Inc, 0),
            n(Recipe::MapN(vec![0, 1, 2])),
            n(Recipe::MapN(vec![0, 1, 2, 3])),
            n(Recipe::MapN(vec![0, 1, 2, 3, 4])),
            n(Recipe::MapN(vec![0, 1, 2, 3, 4, 5])),
        ]),
    ));
    v.push((
        "fold3_dup",
        Prog::new(vec![var(0), var(1), map(F1::Inc, 0), n(Recipe::Fold(vec![0, 1, 2, 0]))]),
    ));
    v.push((
        "zip_mapref",
        Prog::new(vec![var(0), var(1), n(Recipe::Zip(0, 1)), n(Recipe::MapRef(2)), map(F1::Inc, 3)]),
    ));
    v.push((
        "mapref_chain",
        Prog::new(vec![var(0), var(1), n(Recipe::Zip(0, 1)), n(Recipe::MapRef(2)), n(Recipe::MapRef(3)), map2(F2::Mix, 4, 1)]),
    ));
    v.push((
        "map_with_old_chain",
        Prog::new(vec![var(0), n(Recipe::MapWithOld(0)), map(F1::Inc, 1), n(Recipe::MapWithOld(2))]),
    ));
    v.push((
        "depend_on",
        Prog::new(vec![var(0), var(1), n(Recipe::DependOn(0, 1)), map(F1::Inc, 2)]),
    ));
    // a map_ref directly over a map_with_old node (which hands no old value to the projection's cutoff), with ordinary
    // consumers on top (added after seeds C01-d / C06-d)
    v.push((
        "mwo_mapref",
        Prog::new(vec![var(0), var(1), n(Recipe::MapWithOld(0)), n(Recipe::MapRef(2)), map(F1::Inc, 3), n(Recipe::MapN(vec![3, 1, 1]))]),
    ));
    v.push((
        "bind_own_input",
        Prog::new(vec![var(0), bind(0, E(0), F(0))]),
    ));
    v.push((
        "bind_const",
        Prog::new(vec![var(0), var(1), bind(0, FC, E(1))]),
    ));
    v.push((
        "nested_bind",
        Prog::new(vec![var(0), var(1), map(F1::Inc, 1), bind(0, NB(1, Box::new(F(2)), Box::new(E(1))), F(2))]),
    ));
    v.push((
        "nested_bind_same_lhs",
        Prog::new(vec![var(0), map(F1::Inc, 0), bind(0, NB(0, Box::new(F(1)), Box::new(F(1))), NB(1, Box::new(E(0)), Box::new(F(0))))]),
    ));
    v.push((
        "bind_of_bind",
        Prog::new(vec![var(0), var(1), bind(0, F(1), E(1)), bind(1, E(2), F(2))]),
    ));
    v.push((
        "bind_lhs_is_bind",
        Prog::new(vec![var(0), var(1), bind(0, E(1), F(1)), bind(2, F(0), FC)]),
    ));
    // FG under a bind whose lhs is another bind that grows taller
    v.push((
        "fg_under_growing_bind",
        Prog::new(vec![var(0), var(1), map(F1::Inc, 1), map(F1::Inc, 2), bind(0, E(1), E(3)), bind(4, FG(1), FG(1))]),
    ));
    // the input of the FG bind is itself a bind that switches between two nodes of *equal value* but
    // different height (max(v1,v1) chains): the FG bind's lhs-change node is raised without its closure
    // re-running, so the nodes it created earlier must be raised with it (added after seed C03-b)
    v.push((
        "fg_equal_value_growing",
        Prog::new(vec![
            var(0),
            var(1),
            map2(F2::Max, 1, 1),
            map2(F2::Max, 2, 1),
            map2(F2::Max, 3, 1),
            bind(0, E(1), E(4)),
            bind(5, FG(1), FG(1)),
            map(F1::Inc, 6),
        ]),
    ));
    v.push((
        "ff_equal_value_growing",
        Prog::new(vec![
            var(0),
            var(1),
            map2(F2::Max, 1, 1),
            map2(F2::Max, 2, 1),
            bind(0, E(1), E(3)),
            bind(4, FF(1), FG(2)),
            map2(F2::Mix, 5, 2),
        ]),
    ));
    v.push((
        "fg_simple",
        Prog::new(vec![var(0), var(1), bind(0, FG(1), FG(1)), map(F1::Inc, 2)]),
    ));
    v.push((
        "f2_chain",
        Prog::new(vec![var(0), var(1), map(F1::Inc, 1), bind(0, FF(2), FF(1))]),
    ));
    v.push((
        "two_binds_shared_rhs",
        Prog::new(vec![var(0), var(1), map(F1::Inc, 1), bind(0, E(2), F(2)), bind(0, F(2), E(2)), map2(F2::Mix, 3, 4)]),
    ));
    v.push((
        "sibling_map2",
        Prog::new(vec![var(1), map(F1::Inc, 0), map(F1::Inc, 1), bind(0, F(2), F(2)), map2(F2::Mix, 3, 2)]),
    ));
    v.push((
        "late_creation",
        {
            let mut p = Prog::new(vec![var(0), map(F1::Inc, 0), map(F1::Par, 1), map2(F2::Mix, 0, 2)]);
            p.precreated = 2;
            p
        },
    ));
    v.push((
        "late_bind",
        {
            let mut p = Prog::new(vec![var(0), map(F1::Inc, 0), bind(0, F(1), E(1)), map(F1::Inc, 2)]);
            p.precreated = 2;
            p
        },
    ));
    v
}

pub fn with_alpha(mut p: Prog, f: impl FnOnce(&mut Alphabet)) -> Prog {
    f(&mut p.alpha);
    p
}

// ------------------------------------------------------------------------------------------
// named families (resolved by workers; must be deterministic)

use crate::plan::Tier;

fn core_alpha(p: Prog) -> Prog {
    with_alpha(p, |a| {
        a.max_observers = 2;
    })
}

pub fn full_menu() -> Menu {
    Menu {
        map_fns: vec![F1::Inc, F1::Par],
        map2_fns: vec![F2::Mix, F2::Max],
        map_ref: true,
        map_with_old: true,
        fold: true,
        zip: true,
        depend_on: true,
        bind_rhs: vec!["E", "F", "FC"],
    }
}

pub fn family(name: &str, _tier: Tier) -> Vec<Prog> {
    match name {
        "c01/catalogue" => catalogue().into_iter().map(|(_, p)| core_alpha(p)).collect(),
        "c01/grammar1" => grammar(&full_menu(), 2, 1).into_iter().chain(grammar(&full_menu(), 1, 1)).map(core_alpha).collect(),
        "c01/grammar2-repr" => grammar(&Menu::one_fn(), 2, 2)
            .into_iter()
            .chain(grammar(&Menu::one_fn(), 1, 2))
            .filter(representative)
            .map(core_alpha)
            .collect(),
        "c01/grammar2" => grammar(&Menu::core(), 2, 2).into_iter().chain(grammar(&Menu::core(), 1, 2)).map(core_alpha).collect(),
        // only sink nodes are observable, one observer at a time: long un-observe / re-observe
        // histories become reachable (DESIGN C01 "unobserved for a while and observed again")
        "c01/reobserve" => catalogue()
            .into_iter()
            .map(|(_, p)| p)
            .chain(grammar(&full_menu(), 2, 1))
            .chain(grammar(&full_menu(), 1, 1))
            .map(sinks_only)
            .collect(),
        // sinks plus one interior node observable, two observers: a node is un-observed while
        // its input stays needed, then observed again
        "c01/reobserve2" => catalogue()
            .into_iter()
            .map(|(_, p)| p)
            .chain(grammar(&full_menu(), 2, 1))
            .chain(grammar(&full_menu(), 1, 1))
            .flat_map(sinks_plus_one)
            .collect(),
        // thorough only: three derived nodes under restricted menus
        "c01/grammar3-maps" => {
            let menu = Menu {
                map_fns: vec![F1::Inc],
                map2_fns: vec![F2::Mix],
                map_ref: true,
                bind_rhs: vec![],
                ..Menu::core()
            };
            grammar(&menu, 2, 3).into_iter().chain(grammar(&menu, 1, 3)).map(core_alpha).collect()
        }
        "c01/grammar3-binds" => {
            let menu = Menu {
                map_fns: vec![F1::Inc],
                map2_fns: vec![],
                bind_rhs: vec!["E", "F"],
                ..Menu::core()
            };
            grammar(&menu, 1, 3).into_iter().filter(representative).map(core_alpha).collect()
        }
        "shapes/binds" => bind_shapes(),
        "shapes/fanout" => fanout_shapes(),
        "shapes/diamond" => diamond_shapes(),
        "shapes/pending" => pending_shapes(),
        "shapes/bindvars" => bindvar_shapes(),
        "shapes/readopt" => readopt_shapes(),
        // the bind shapes with the top node and the shared chain observed (and stabilised) from the start: "two writes, stabilise,
        // one write, stabilise" then fits the quick depth (after seed C01-h: a bind main that was queued, released and later
        // re-adopted over a right-hand side that has not changed since)
        "shapes/binds-started" => bind_shapes()
            .into_iter()
            .map(|mut p| {
                let top = p.alpha.observable[1];
                p.start_observed = vec![top, 4];
                p
            })
            .collect(),
        "c05/on_update" => on_update_shapes(),
        // node creation interleaved with everything else (C01 "create node"): the derived nodes do not exist when the
        // history starts and appear one by one through `CreateNext` -- either all of them, or only the last one (a new
        // dependant of nodes that have long been computed); sinks observable, one observer at a time
        "c01/late" => catalogue()
            .into_iter()
            .map(|(_, p)| p)
            .chain(grammar(&full_menu(), 2, 1))
            .chain(bind_shapes().into_iter().step_by(5))
            .flat_map(|p| {
                let first_derived = p.nodes.iter().position(|n| !matches!(n.recipe, Recipe::Var(_) | Recipe::Const(_))).unwrap_or(p.nodes.len()) as u8;
                let total = p.nodes.len() as u8;
                let base = sinks_only(p);
                let mut out = vec![];
                for pre in [first_derived, total.saturating_sub(1)] {
                    if pre < total && pre >= first_derived.min(total) && !out.iter().any(|q: &Prog| q.precreated == pre) {
                        let mut q = base.clone();
                        q.precreated = pre;
                        q.alpha.values = vec![0, 1];
                        out.push(q);
                    }
                }
                out
            })
            .collect(),
        "shapes/xp" => xp_shapes(false),
        "shapes/xp-writes" => xp_shapes(true),
        "shapes/fn-writes" => fn_write_shapes(),
        "c03/nested" => nested_shapes(),
        "c03/inner" => bind_programs().into_iter().flat_map(pin_binds).collect(),
        "c03/stale_rhs" => stale_rhs_programs(),
        "c05/clones" => catalogue()
            .into_iter()
            .map(|(_, p)| p)
            .chain(grammar(&Menu::one_fn(), 2, 1))
            .map(|p| {
                with_alpha(p, |a| {
                    a.clone_obs = true;
                    a.max_observers = 2;
                    a.values = vec![0, 1];
                })
            })
            .collect(),
        // the harness drops its own handles too: an observer can be the last owner of its node
        // (added after seed C05-b)
        "c05/drop_handles" => {
            use Rhs::*;
            let shapes: Vec<Vec<NodeSpec>> = vec![
                vec![var(0), map(F1::Inc, 0), map(F1::Inc, 1)],
                vec![var(0), map(F1::Inc, 0), map(F1::Par, 0), map2(F2::Mix, 1, 2)],
                vec![var(0), var(1), map(F1::Inc, 1), bind(0, E(2), F(2)), map(F1::Inc, 3)],
                vec![var(0), var(1), n(Recipe::Zip(0, 1)), n(Recipe::MapRef(2)), map(F1::Inc, 3)],
                vec![var(0), n(Recipe::MapWithOld(0)), map(F1::Inc, 1)],
                vec![var(0), var(1), n(Recipe::Fold(vec![0, 1, 0])), map(F1::Inc, 2)],
            ];
            shapes
                .into_iter()
                .map(|nodes| {
                    let mut p = Prog::new(nodes);
                    p.alpha.drop_handle = true;
                    p.alpha.max_observers = 2;
                    p.alpha.disallow = false;
                    p.alpha.values = vec![0, 1];
                    p
                })
                .collect()
        }
        // A bind closure that hands back the node its previous run created: that node is invalidated while it is
        // still the bind's right-hand side, i.e. while it is *needed*. Unlike `c03/stale_rhs` the bind is not pinned:
        // once its observer is gone, nothing below the invalidated node may be computed any more (added after seed
        // C05-c: invalidation must unlink a needed node from its inputs).
        "c05/stale" => {
            use Rhs::*;
            let shapes: Vec<(Vec<NodeSpec>, Vec<u8>)> = vec![
                (vec![var(0), var(1), map(F1::Par, 1), bind(0, ST(2), ST(2))], vec![3]),
                (vec![var(0), var(1), map(F1::Par, 1), bind(0, ST(2), E(2)), map(F1::Inc, 3)], vec![4, 2]),
                (vec![var(0), var(1), map(F1::Par, 1), map(F1::Inc, 2), bind(0, ST(3), F(2))], vec![4]),
                // the closure hands back the same *outer* node whatever its input is: every re-run takes the
                // "same right-hand side" shortcut (added after seed C05-e: bookkeeping done before that shortcut)
                (vec![var(0), var(1), map(F1::Par, 1), bind(0, E(2), E(2))], vec![3]),
                (vec![var(0), var(1), map(F1::Par, 1), map(F1::Inc, 2), bind(0, E(3), E(3)), map(F1::Inc, 4)], vec![5]),
            ];
            shapes
                .into_iter()
                .map(|(nodes, observable)| {
                    let mut p = Prog::new(nodes);
                    p.alpha.observable = observable;
                    p.alpha.max_observers = 1;
                    p.alpha.disallow = false;
                    p.alpha.values = vec![0, 1, 2];
                    p
                })
                .collect()
        }
        "c06/cutoffs" => cutoff_programs(false),
        "c06/cutoffs-full" => cutoff_programs(true),
        "c07/reads" => catalogue()
            .into_iter()
            .map(|(_, p)| p)
            .filter(|p| p.nodes.len() <= 5)
            .map(|p| {
                with_alpha(p, |a| {
                    a.closures_read_observers = true;
                    a.subscribe = true;
                    a.max_subs = 1;
                    a.max_observers = 2;
                    a.disallow = false;
                    a.values = vec![0, 1];
                })
            })
            .collect(),
        "c07/handler_writes" => {
            let shapes: Vec<(Vec<NodeSpec>, u8)> = vec![
                (vec![var(0), var(1), map(F1::Inc, 0), map2(F2::Mix, 2, 1)], 1),
                (vec![var(0), var(1), map(F1::Half, 0), map(F1::Inc, 1), map2(F2::Mix, 2, 3)], 1),
                (vec![var(0), var(1), map(F1::Inc, 1), bind(0, Rhs::E(2), Rhs::F(2))], 1),
                (vec![var(0), map(F1::Half, 0), map(F1::Inc, 1)], 0),
            ];
            shapes
                .into_iter()
                .map(|(nodes, target)| {
                    let mut p = Prog::new(nodes);
                    p.alpha.subscribe = true;
                    p.alpha.max_subs = 1;
                    p.alpha.max_observers = 2;
                    p.alpha.disallow = false;
                    p.alpha.handler_sets_var = Some(target);
                    p
                })
                .collect()
        }
        "c09/subs" => subscription_programs(),
        // a reduced alphabet on one shared node, so that subscribe / unsubscribe before the first
        // stabilise followed by two rounds of changes (8 actions) is within reach
        "c10/focus" => {
            let mut out = vec![];
            for (cut, vals) in [(Cut::Default, vec![0, 2]), (Cut::Never, vec![0, 2]), (Cut::Default, vec![0, 1, 2])] {
                for state_unsub in [false, true] {
                    let mut p = Prog::new(vec![var(0), map(F1::Half, 0).cut(cut)]);
                    p.alpha.observable = vec![1];
                    p.alpha.values = vals.clone();
                    p.alpha.max_observers = 2;
                    p.alpha.max_subs = 2;
                    p.alpha.subscribe = true;
                    p.alpha.unsubscribe = !state_unsub;
                    p.alpha.state_unsubscribe = state_unsub;
                    p.alpha.disallow = false;
                    out.push(p);
                }
            }
            out
        }
        // node 2 is a twin of node 1 (same recipe); only node 1 is offered for observation, the
        // differential driver moves the *other* observers to the twin in the counterfactual run
        "c10/differential" => {
            let mut out = vec![];
            for (cut, vals) in [(Cut::Default, vec![0, 2]), (Cut::Never, vec![0, 2]), (Cut::Default, vec![0, 1, 2])] {
                for state_unsub in [false, true] {
                    for clone_obs in [false, true] {
                        let mut p = Prog::new(vec![var(0), map(F1::Half, 0).cut(cut), map(F1::Half, 0).cut(cut)]);
                        p.alpha.observable = vec![1];
                        p.alpha.values = vals.clone();
                        p.alpha.max_observers = 2;
                        p.alpha.max_subs = 2;
                        p.alpha.subscribe = true;
                        p.alpha.unsubscribe = !state_unsub;
                        p.alpha.state_unsubscribe = state_unsub;
                        p.alpha.clone_obs = clone_obs;
                        p.alpha.disallow = clone_obs;
                        out.push(p);
                    }
                }
            }
            out
        }
        "c09/self_unsub" => subscription_programs()
            .into_iter()
            .map(|p| {
                with_alpha(p, |a| {
                    a.handler_self_unsub = true;
                    a.state_unsubscribe = false;
                    a.clone_obs = false;
                })
            })
            .collect(),
        // handlers that end the life of their own observer: with two subscriptions on one observer the sibling that has
        // not run yet must stay silent (added after seed C09-c); both handler orders are explored
        "c09/self_disallow" => subscription_programs()
            .into_iter()
            .map(|p| {
                with_alpha(p, |a| {
                    a.handler_self_disallow = true;
                    a.state_unsubscribe = false;
                    a.unsubscribe = false;
                    a.clone_obs = false;
                })
            })
            .collect(),
        "c11/on_update" => catalogue()
            .into_iter()
            .map(|(_, p)| p)
            .filter(|p| p.nodes.len() <= 5)
            .map(|p| {
                with_alpha(p, |a| {
                    a.on_update = true;
                    a.subscribe = true;
                    a.unsubscribe = true;
                    a.max_subs = 1;
                    a.max_observers = 2;
                    a.values = vec![0, 1];
                })
            })
            .collect(),
        "c13/faults" => catalogue()
            .into_iter()
            .map(|(_, p)| p)
            .filter(|p| p.nodes.len() <= 6)
            .chain(cutoff_programs(false).into_iter().filter(|p| p.nodes.iter().filter(|n| n.cut.is_logged()).count() >= 2).step_by(7))
            // expert nodes: recompute function, edge callback and observability callback are crash points too
            .chain(xp_shapes(false))
            // a node function writes a variable before the crash point
            .chain(fn_write_shapes())
            .map(|p| {
                with_alpha(p, |a| {
                    a.subscribe = true;
                    a.max_subs = 1;
                    a.max_observers = 2;
                    a.disallow = false;
                    a.values = vec![0, 1];
                })
            })
            .collect(),
        "c11/drop_handles" => catalogue()
            .into_iter()
            .map(|(_, p)| p)
            .map(|p| {
                with_alpha(p, |a| {
                    a.drop_handle = true;
                    a.max_observers = 2;
                    a.values = vec![0, 1];
                })
            })
            .collect(),
        _ => vec![],
    }
}

/// programs whose binds build fresh nodes
fn bind_programs() -> Vec<Prog> {
    let menu = Menu {
        bind_rhs: vec!["E", "F", "FC", "FF"],
        ..Menu::one_fn()
    };
    catalogue()
        .into_iter()
        .map(|(_, p)| p)
        .chain(grammar(&menu, 2, 1))
        .chain(grammar(&menu, 1, 2).into_iter().filter(representative))
        .filter(|p| {
            p.nodes.iter().any(|n| match &n.recipe {
                Recipe::Bind { even, odd, .. } => !matches!(even, Rhs::E(_)) || !matches!(odd, Rhs::E(_)),
                _ => false,
            })
        })
        .collect()
}

/// one variant per bind: that bind is pinned (always observed), its inner nodes observable,
/// observers can be subscribed to
fn pin_binds(p: Prog) -> Vec<Prog> {
    let mut out = vec![];
    for (i, n) in p.nodes.iter().enumerate() {
        let Recipe::Bind { even, odd, .. } = &n.recipe else { continue };
        if matches!(even, Rhs::E(_)) && matches!(odd, Rhs::E(_)) {
            continue;
        }
        if (i as u8) >= p.precreated {
            continue;
        }
        let mut q = p.clone();
        q.pinned = vec![i as u8];
        q.alpha.observe_inner = true;
        q.alpha.subscribe = true;
        q.alpha.max_subs = 1;
        q.alpha.max_observers = 2;
        q.alpha.values = vec![0, 1, 2];
        // outer observers only on nodes other than the pinned bind's own inputs keep the alphabet small
        out.push(q);
    }
    out
}

fn stale_rhs_programs() -> Vec<Prog> {
    use Rhs::*;
    let mk = |nodes: Vec<NodeSpec>, pin: u8| {
        let mut p = Prog::new(nodes);
        p.pinned = vec![pin];
        p.alpha.observe_inner = true;
        p.alpha.subscribe = true;
        p.alpha.max_subs = 2;
        p.alpha.max_observers = 2;
        p
    };
    vec![
        mk(vec![var(0), var(1), bind(0, ST(1), ST(1))], 2),
        mk(vec![var(0), var(1), bind(0, ST(1), F(1)), map(F1::Inc, 2)], 2),
        mk(vec![var(0), var(1), map(F1::Inc, 1), bind(0, ST(2), E(2))], 3),
    ]
}

fn cutoff_programs(full: bool) -> Vec<Prog> {
    use Rhs::*;
    let bases: Vec<(Vec<NodeSpec>, Vec<u8>)> = vec![
        (vec![var(0), map(F1::Half, 0), map(F1::Inc, 1)], vec![0, 1, 2]),
        (vec![var(0), var(1), map2(F2::Max, 0, 1), map(F1::Par, 2)], vec![0, 2, 3]),
        (vec![var(0), map(F1::Half, 0), bind(1, F(0), E(0))], vec![0, 1, 2]),
        (vec![var(0), var(1), n(Recipe::Fold(vec![0, 1, 0])), map(F1::Half, 2)], vec![1, 2, 3]),
        (vec![var(0), n(Recipe::MapWithOld(0)), map(F1::Inc, 1)], vec![0, 1, 2]),
        (vec![var(0), var(1), n(Recipe::Zip(0, 1)), n(Recipe::MapRef(2)), map(F1::Inc, 3)], vec![0, 3, 4]),
        (vec![var(0), map(F1::Half, 0), map(F1::Half, 0), map2(F2::Mix, 1, 2)], vec![1, 2, 3]),
        (vec![var(0), var(1), bind(0, E(1), F(1)), map(F1::Half, 2)], vec![1, 2, 3]),
        // two chained map_refs over a nested pair <<v0|v1>|v1>: the inner projection <v0|v1> can carry a coarse
        // (parity of 7*v0+v1) cutoff that suppresses a change in which the outer projection v0 differs (added
        // after seed C06-b: a map_ref whose own projection is cut off must still tell the map_refs above it)
        (vec![var(0), var(1), n(Recipe::Zip(0, 1)), n(Recipe::Zip(2, 1)), n(Recipe::MapRef(3)), n(Recipe::MapRef(4)), map(F1::Inc, 5)], vec![4, 5, 6]),
    ];
    let kinds: Vec<Cut> = if full {
        vec![Cut::Default, Cut::Never, Cut::Always, Cut::FnEq, Cut::BoxEq, Cut::FnPar, Cut::BoxPar]
    } else {
        vec![Cut::Default, Cut::Never, Cut::Always, Cut::FnEq, Cut::BoxPar]
    };
    let mut out = vec![];
    for (nodes, targets) in bases {
        let k = kinds.len();
        for code in 0..k.pow(targets.len() as u32) {
            let mut nodes = nodes.clone();
            let mut c = code;
            let mut all_default = true;
            for t in targets.iter() {
                let cut = kinds[c % k];
                c /= k;
                // MapRef consults its cutoff from child_changed, possibly several times: keep it unlogged
                if matches!(nodes[*t as usize].recipe, Recipe::MapRef(_)) && cut.is_logged() {
                    all_default = false;
                    nodes[*t as usize].cut = if matches!(cut, Cut::FnPar | Cut::BoxPar) { Cut::QuietPar } else { Cut::Never };
                    continue;
                }
                if cut != Cut::Default {
                    all_default = false;
                }
                nodes[*t as usize].cut = cut;
            }
            let _ = all_default;
            let mut p = Prog::new(nodes);
            let sinks = sinks_only(p.clone()).alpha.observable;
            p.alpha.observable = sinks;
            p.alpha.max_observers = 1;
            p.alpha.disallow = false;
            out.push(p);
        }
    }
    out.dedup();
    out
}

fn subscription_programs() -> Vec<Prog> {
    use Rhs::*;
    let mut out = vec![];
    let alpha = |p: &mut Prog, inner: bool| {
        p.alpha.subscribe = true;
        p.alpha.unsubscribe = true;
        p.alpha.state_unsubscribe = true;
        p.alpha.clone_obs = true;
        p.alpha.max_observers = 2;
        p.alpha.max_subs = 2;
        p.alpha.values = vec![0, 1, 2];
        p.alpha.observe_inner = inner;
    };
    // one shared node with a collapsing function (changes are sometimes cut off)
    let mut p = Prog::new(vec![var(0), map(F1::Half, 0)]);
    p.alpha.observable = vec![1];
    alpha(&mut p, false);
    out.push(p);
    // Never cutoff: every recompute is a change
    let mut p = Prog::new(vec![var(0), map(F1::Half, 0).cut(Cut::Never)]);
    p.alpha.observable = vec![1];
    alpha(&mut p, false);
    out.push(p);
    // two nodes, one downstream of the other
    let mut p = Prog::new(vec![var(0), map(F1::Half, 0), map(F1::Inc, 1)]);
    p.alpha.observable = vec![1, 2];
    alpha(&mut p, false);
    p.alpha.clone_obs = false;
    out.push(p);
    // inside a bind, so that observed nodes get invalidated
    let mut p = Prog::new(vec![var(0), var(1), bind(0, F(1), F(1))]);
    p.pinned = vec![2];
    p.alpha.observable = vec![2];
    alpha(&mut p, true);
    p.alpha.clone_obs = false;
    p.alpha.state_unsubscribe = false;
    out.push(p);
    // the bind output itself (switches between existing nodes)
    let mut p = Prog::new(vec![var(0), var(1), map(F1::Half, 1), bind(0, E(1), E(2))]);
    p.alpha.observable = vec![3];
    alpha(&mut p, false);
    p.alpha.clone_obs = false;
    out.push(p);
    out
}

fn sinks_plus_one(p: Prog) -> Vec<Prog> {
    let base = sinks_only(p);
    let mut out = vec![];
    let stateful = base.nodes.iter().any(|n| matches!(n.recipe, Recipe::DependOn(..) | Recipe::MapRef(_) | Recipe::MapWithOld(_)));
    for i in 0..base.nodes.len() as u8 {
        if base.alpha.observable.contains(&i) || matches!(base.nodes[i as usize].recipe, Recipe::Const(_)) {
            continue;
        }
        // a variable observed on its own keeps changing while its dependants are unneeded (added after
        // seed C01-b); only worth the extra programs where some node keeps state between rounds
        if matches!(base.nodes[i as usize].recipe, Recipe::Var(_)) && !stateful {
            continue;
        }
        let mut q = base.clone();
        q.alpha.observable.push(i);
        q.alpha.max_observers = 2;
        q.alpha.values = vec![0, 1];
        out.push(q);
    }
    out
}

fn sinks_only(p: Prog) -> Prog {
    let mut used = vec![false; p.nodes.len()];
    for s in p.nodes.iter() {
        for i in s.recipe.inputs() {
            used[i as usize] = true;
        }
    }
    let sinks: Vec<u8> = (0..p.nodes.len() as u8).filter(|i| !used[*i as usize]).collect();
    with_alpha(p, |a| {
        a.observable = sinks;
        a.max_observers = 1;
        a.disallow = false;
    })
}

/// thinning used by quick tiers: bind alternatives are kept up to exchanging even/odd, and a
/// bind's two alternatives must differ
fn representative(p: &Prog) -> bool {
    p.nodes.iter().all(|n| match &n.recipe {
        Recipe::Bind { even, odd, .. } => format!("{even:?}") < format!("{odd:?}"),
        _ => true,
    })
}

/// Bind-centred shapes of 7-9 nodes that the grammar cannot reach: a bind over a var that has a
/// sibling dependant, whose alternatives are pre-existing nodes at different depths of a chain
/// over another var (or fresh nodes over them), optionally a second bind that selects the first
/// one or an otherwise unneeded node, and a logged consumer on top.
///   0:v0 1:v1 2:v2 3:x1=inc(v1) 4:x2=inc(x1) 5:s=inc(v0) 6:B1 [7:B2] top:D=inc(last bind)
pub fn bind_shapes() -> Vec<Prog> {
    use Rhs::*;
    let b1_alts: Vec<(Rhs, Rhs)> = vec![
        (E(4), E(1)),
        (E(4), E(3)),
        (E(4), F(4)),
        (E(3), F(3)),
        (F(4), F(4)),
        (E(4), E(2)),
        (E(1), E(4)),
    ];
    let mut out = vec![];
    for (e, o) in b1_alts {
        let base = vec![var(0), var(1), var(0), map(F1::Inc, 1), map(F1::Inc, 3), map(F1::Inc, 0), bind(0, e.clone(), o.clone())];
        // no second bind
        let mut nodes = base.clone();
        nodes.push(map(F1::Inc, 6));
        out.push((nodes, vec![5u8, 7, 4]));
        // a second bind on an independent var selecting the first bind or another node
        for (e2, o2) in [(E(6), E(3)), (E(3), E(6)), (E(6), F(3)), (E(6), E(5))] {
            let mut nodes = base.clone();
            nodes.push(bind(2, e2, o2));
            nodes.push(map(F1::Inc, 7));
            out.push((nodes, vec![5u8, 8, 4]));
        }
        // a second bind whose input is the first bind
        let mut nodes = base.clone();
        nodes.push(bind(6, F(3), E(4)));
        nodes.push(map(F1::Inc, 7));
        out.push((nodes, vec![5u8, 8, 4]));
    }
    out.into_iter()
        .map(|(nodes, observable)| {
            let mut p = Prog::new(nodes);
            p.alpha.observable = observable;
            p.alpha.max_observers = 2;
            p.alpha.values = vec![0, 1];
            p.alpha.disallow = false;
            p
        })
        .collect()
}

/// Nested binds whose innermost nodes are observable (through the pinned outer bind).
pub fn nested_shapes() -> Vec<Prog> {
    use Rhs::*;
    let mk = |nodes: Vec<NodeSpec>, pin: u8| {
        let mut p = Prog::new(nodes);
        p.pinned = vec![pin];
        p.alpha.observe_inner = true;
        p.alpha.observable = vec![pin];
        p.alpha.subscribe = true;
        p.alpha.max_subs = 1;
        p.alpha.max_observers = 1;
        p.alpha.disallow = false;
        p.alpha.values = vec![0, 1, 2];
        p
    };
    let nb = |l: u8, e: Rhs, o: Rhs| NB(l, Box::new(e), Box::new(o));
    vec![
        // outer on v0, inner on v1, innermost map over v2
        mk(vec![var(0), var(1), var(2), bind(0, nb(1, F(2), F(2)), nb(1, F(2), E(2)))], 3),
        mk(vec![var(0), var(1), var(2), bind(0, nb(1, F(2), FC), F(2))], 3),
        mk(vec![var(0), var(1), var(2), bind(0, nb(1, FF(2), F(2)), nb(1, F(2), FF(2)))], 3),
        // inner bind on the same var as the outer one
        mk(vec![var(0), var(2), bind(0, nb(0, F(1), F(1)), nb(0, F(1), F(1)))], 2),
        // inner bind whose input is a map over the outer bind's input
        mk(vec![var(0), var(2), map(F1::Half, 0), bind(0, nb(2, F(1), F(1)), nb(2, F(1), E(1)))], 3),
    ]
}

/// An existing, already computed node (a fold, a map2, a map_with_old, an expert node ...) that one bind lets go of and
/// another bind, running later in the same stabilise, picks up again: it becomes unnecessary and necessary again within one
/// round, after it has been recomputed in that round (after seed C02-g: whatever "forget on release" bookkeeping a kind
/// has must not make it run twice).
///   0:k 1:a 2:b 3:X(a,b) 4:const 5:par(a) 6:sel=mix(5,k) 7:b1=bind(sel, const | X) 8:mix(b1,a) 9:b2=bind(8, X | const)
/// The first bind's selector depends on `a` through two levels, so its lhs-change node runs after X (height 1) has been
/// recomputed for the new `a`; the second bind's selector is above the first bind.
pub fn readopt_shapes() -> Vec<Prog> {
    use Rhs::*;
    let k = |c: i32| n(Recipe::Const(c));
    let kinds: Vec<NodeSpec> = vec![
        n(Recipe::Fold(vec![1, 2])),
        map2(F2::Mix, 1, 2),
        n(Recipe::MapN(vec![1, 2, 1])),
        n(Recipe::MapWithOld(1)),
        n(Recipe::Xp(1)),
        n(Recipe::Zip(1, 2)),
    ];
    let mut out = vec![];
    for x in kinds {
        for (flip1, flip2) in [(false, false), (false, true), (true, false), (true, true)] {
            let nodes = vec![
                var(0),
                var(1),
                var(0),
                x.clone(),
                k(0),
                map(F1::Par, 1),
                map2(F2::Mix, 5, 0),
                if flip1 { bind(6, E(3), E(4)) } else { bind(6, E(4), E(3)) },
                map2(F2::Mix, 7, 1),
                if flip2 { bind(8, E(4), E(3)) } else { bind(8, E(3), E(4)) },
            ];
            let mut p = Prog::new(nodes);
            p.alpha.observable = vec![9, 7];
            p.start_observed = vec![9, 7];
            p.alpha.max_observers = 2;
            p.alpha.values = vec![0, 1];
            p.alpha.disallow = false;
            out.push(p);
        }
    }
    out
}

/// Nodes that carry an `Incr::on_update` handler but no observer: a handler is not a reason to keep a node (and what is
/// below it) computed. The handler is installed from the start on an inner node, so that the short histories
/// "observed, released (observer dropped / a bind switches away), input written" fit the quick depth (after seed C05-g).
pub fn on_update_shapes() -> Vec<Prog> {
    use Rhs::*;
    let k = |c: i32| n(Recipe::Const(c));
    let shapes: Vec<(Vec<NodeSpec>, Vec<u8>, Vec<u8>, Vec<u8>)> = vec![
        // (nodes, handlers, observable, start_observed)
        (vec![var(0), map(F1::Inc, 0), map(F1::Inc, 1)], vec![1], vec![1, 2], vec![1]),
        (vec![var(0), map(F1::Inc, 0), map(F1::Inc, 1)], vec![1], vec![1, 2], vec![2]),
        (vec![var(0), var(0), map2(F2::Mix, 0, 1), map(F1::Inc, 2)], vec![2], vec![3, 2], vec![3]),
        // a bind switches away from the branch that carries the handler
        (vec![var(0), var(0), map(F1::Inc, 1), map(F1::Inc, 2), k(0), bind(0, E(3), E(4))], vec![3], vec![5], vec![5]),
        (vec![var(0), var(0), map(F1::Inc, 1), map(F1::Inc, 2), k(0), bind(0, E(3), E(4))], vec![2], vec![5, 3], vec![5]),
    ];
    shapes
        .into_iter()
        .map(|(nodes, handlers, observable, start)| {
            let mut p = Prog::new(nodes);
            p.start_on_update = handlers;
            p.alpha.observable = observable;
            p.start_observed = start;
            p.alpha.max_observers = 2;
            p.alpha.values = vec![0, 1];
            p.alpha.disallow = true;
            p
        })
        .collect()
}

/// Bind closures that create a *variable* (`Rhs::FV`: `state.var` / `state.var_current_scope` of the captured value), drop
/// its handle before returning and hand back the watch node: variables are created, become necessary, are orphaned and torn
/// down in the middle of stabilises; with a pinned bind the watch nodes can be observed and subscribed to directly.
pub fn bindvar_shapes() -> Vec<Prog> {
    use Rhs::*;
    let nb = |l: u8, e: Rhs, o: Rhs| NB(l, Box::new(e), Box::new(o));
    let plain = |nodes: Vec<NodeSpec>, observable: Vec<u8>| {
        let mut p = Prog::new(nodes);
        p.alpha.observable = observable;
        p.alpha.max_observers = 2;
        p.alpha.values = vec![0, 1, 2];
        p.alpha.disallow = false;
        p
    };
    let pinned = |nodes: Vec<NodeSpec>, pin: u8| {
        let mut p = Prog::new(nodes);
        p.pinned = vec![pin];
        p.alpha.observe_inner = true;
        p.alpha.observable = vec![pin];
        p.alpha.subscribe = true;
        p.alpha.max_subs = 1;
        p.alpha.max_observers = 1;
        p.alpha.disallow = false;
        p.alpha.values = vec![0, 1, 2];
        p
    };
    vec![
        plain(vec![var(0), bind(0, FV(false), FV(true)), map(F1::Inc, 1)], vec![1, 2]),
        plain(vec![var(0), var(1), map(F1::Inc, 1), bind(0, FV(false), E(2)), map2(F2::Mix, 3, 2)], vec![4, 3]),
        plain(vec![var(0), var(1), bind(0, FV(true), F(1)), map(F1::Inc, 2)], vec![3, 2]),
        plain(vec![var(0), var(1), bind(0, nb(1, FV(true), F(1)), FV(false)), map(F1::Inc, 2)], vec![3, 2]),
        pinned(vec![var(0), var(1), bind(0, FV(false), FV(true))], 2),
        pinned(vec![var(0), var(1), bind(0, nb(1, FV(true), FV(false)), FV(true))], 2),
    ]
}

/// One node with three or more dependants in which it sits at *different* input positions (first input of one,
/// second of another, both inputs of a third, a fold input twice, a bind alternative), three observers that can be
/// dropped in any order: every permutation of the swap-removes on the shared node's parent list, with the index
/// tables on both ends, is reached (added after seed C04-b: the slot table of the parent moved by a swap-remove).
pub fn fanout_shapes() -> Vec<Prog> {
    use Rhs::*;
    let k = |c: i32| n(Recipe::Const(c));
    let shapes: Vec<(Vec<NodeSpec>, Vec<u8>)> = vec![
        // c is input 0 of p0, input 1 of p1, input 0 of p2
        (vec![var(0), k(1), k(2), map(F1::Inc, 0), map2(F2::Mix, 1, 0), map2(F2::Mix, 0, 2)], vec![3, 4, 5]),
        // c twice in one parent, once in two others at different positions
        (vec![var(0), k(1), map2(F2::Mix, 0, 0), map2(F2::Mix, 1, 0), map(F1::Inc, 0)], vec![2, 3, 4]),
        // fold with c at positions 0 and 2, map2 with c second, map
        (vec![var(0), k(1), n(Recipe::Fold(vec![0, 1, 0])), map2(F2::Mix, 1, 0), map(F1::Par, 0)], vec![2, 3, 4]),
        // a bind that switches between c itself and a map2 over c: c gains / loses the bind main as a parent
        (vec![var(0), var(1), map2(F2::Mix, 1, 0), bind(1, E(0), E(2)), map2(F2::Mix, 0, 1), map(F1::Inc, 0)], vec![3, 4, 5]),
        // second level: the shared node is itself derived (so it is relinked when it becomes needed again)
        (vec![var(0), k(1), map(F1::Inc, 0), map(F1::Inc, 2), map2(F2::Mix, 1, 2), map2(F2::Mix, 2, 1), map2(F2::Mix, 2, 2)], vec![3, 4, 5, 6]),
    ];
    shapes
        .into_iter()
        .map(|(nodes, observable)| {
            let mut p = Prog::new(nodes);
            p.alpha.observable = observable;
            p.start_observed = p.alpha.observable.iter().take(3).cloned().collect();
            p.alpha.max_observers = 3;
            p.alpha.values = vec![0, 1];
            p.alpha.disallow = false;
            p
        })
        .collect()
}

/// Expert nodes (`Recipe::Xp`) among ordinary ones: their recompute function, on-change edge callback and
/// observability callback are user closures that run inside stabilise (the observability callback already while
/// observers are being linked / unlinked at its start, or in the middle of propagation when a bind switches to or
/// away from the expert node). Added after seeds C07-b / C13-b. With `writes`, the observability callbacks write a
/// variable; closures read every observer (C07).
pub fn xp_shapes(writes: bool) -> Vec<Prog> {
    use Rhs::*;
    let xp = |a: u8| n(Recipe::Xp(a));
    let shapes: Vec<(Vec<NodeSpec>, Vec<u8>, u8)> = vec![
        // expert node in the middle of a chain
        (vec![var(0), var(1), xp(0), map2(F2::Mix, 2, 1)], vec![2, 3], 1),
        // a bind that switches between an expert node and a plain one: observability flips mid-stabilise
        (vec![var(0), var(1), xp(1), map(F1::Inc, 1), bind(0, E(2), E(3))], vec![4, 2], 1),
        // expert node over a bind output, with a sibling
        (vec![var(0), var(1), bind(0, E(1), F(1)), xp(2), map(F1::Inc, 0)], vec![3, 4], 0),
        // two expert nodes in a row
        (vec![var(0), xp(0), xp(1), map(F1::Par, 0)], vec![1, 2, 3], 0),
        // expert node over a map_ref: its edge callback is invoked from inside the map_ref's own "tell my parents" loop
        // (after seed C13-g: a crash point there, then the drops)
        (vec![var(0), var(1), n(Recipe::Zip(0, 1)), n(Recipe::MapRef(2)), xp(3)], vec![4, 3], 1),
    ];
    shapes
        .into_iter()
        .map(|(nodes, observable, target)| {
            let mut p = Prog::new(nodes);
            p.alpha.observable = observable;
            p.alpha.max_observers = 2;
            p.alpha.values = vec![0, 1];
            p.alpha.disallow = false;
            p.alpha.closures_read_observers = true;
            if writes {
                p.alpha.obs_cb_sets_var = Some(target);
            }
            p
        })
        .collect()
}

/// A bind main that is *already queued* (its short right-hand side is a variable written in the same round) when its
/// left-hand side switches it to a much taller right-hand side, while a two-input node in the middle of that tall
/// right-hand side is itself pending: the main node is lifted inside the recompute heap past a queued node. The order of
/// the three writes decides which node the heap's lower bound points at (after seed C02-f).
///   0:w 1:z 2:s 3:a 4:inc(w) 5:inc(4) 6:mix(5,z) 7:inc(6) 8:tall=inc(7) 9:b1=bind(a, s | tall) 10:p=inc(b1)
///   [+ 11:g 12:inc(g) 13:par(g) 14:b2=bind(p, 12 | 13)]
pub fn pending_shapes() -> Vec<Prog> {
    use Rhs::*;
    let mut out = vec![];
    for (flip, second_bind, short_tall) in [(false, false, 2u8), (false, true, 2), (true, false, 2), (false, false, 1), (true, true, 2)] {
        let mut nodes = vec![var(0), var(0), var(0), var(0), map(F1::Inc, 0), map(F1::Inc, 4), map2(F2::Mix, 5, 1)];
        let mut top = 6u8;
        for _ in 0..short_tall {
            nodes.push(map(F1::Inc, top));
            top += 1;
        }
        let b1 = top + 1;
        nodes.push(if flip { bind(3, E(top), E(2)) } else { bind(3, E(2), E(top)) });
        nodes.push(map(F1::Inc, b1));
        let p_ix = b1 + 1;
        let mut observable = vec![top, p_ix];
        if second_bind {
            nodes.push(var(0));
            nodes.push(map(F1::Inc, p_ix + 1));
            nodes.push(map(F1::Par, p_ix + 1));
            nodes.push(bind(p_ix, E(p_ix + 2), E(p_ix + 3)));
            observable = vec![top, p_ix + 4];
        }
        let mut p = Prog::new(nodes);
        p.start_observed = observable.clone();
        p.alpha.observable = observable;
        p.alpha.max_observers = 2;
        p.alpha.values = vec![0, 1];
        p.alpha.disallow = false;
        out.push(p);
    }
    out
}

/// A node function that owns a `Var` handle and writes it (`Alphabet::fn_sets_var`): the write is parked until the end of
/// the stabilise, the dependants of the written variable move at the next one. With a crash point later in the same
/// stabilise the write stays pending for ever and the variable is torn down with it (after seed C13-f).
pub fn fn_write_shapes() -> Vec<Prog> {
    use Rhs::*;
    let shapes: Vec<(Vec<NodeSpec>, Vec<u8>, (u8, u8))> = vec![
        // writer low in a chain, a consumer above it, a reader of the written variable
        (vec![var(0), var(1), map(F1::Inc, 0), map(F1::Inc, 2), map(F1::Inc, 1)], vec![3, 4], (2, 1)),
        // the writer becomes needed in mid-stabilise through a bind, next to a reader of the written variable
        (vec![var(0), var(1), map(F1::Inc, 0), map(F1::Inc, 1), bind(0, E(2), E(3))], vec![4, 3], (2, 1)),
        // the writer reads (through a map2 above it) the variable it writes
        (vec![var(0), var(1), map(F1::Inc, 0), map2(F2::Mix, 2, 1)], vec![3], (2, 1)),
    ];
    shapes
        .into_iter()
        .map(|(nodes, observable, w)| {
            let mut p = Prog::new(nodes);
            p.alpha.observable = observable;
            p.alpha.max_observers = 2;
            p.alpha.values = vec![0, 1];
            p.alpha.disallow = false;
            p.alpha.fn_sets_var = Some(w);
            p
        })
        .collect()
}

/// A bind that switches between a low and a tall right-hand side, with a diamond of *unequal* arms above it whose long
/// arm consists of two-input links (a chain of one-input maps would be recomputed eagerly by the direct-recompute
/// shortcut and hide a wrong height): the join node must be raised through both arms when the bind grows taller.
/// Variants: right-hand sides of different values (inc chains) or of equal value (max chains: the switch changes heights
/// only, the wrong order shows at the next change). Added after seeds C11-b / C02-c.
///   0:sel 1:v 2:k 3:t1 4:t2 5:m=bind(sel, v | t2) 6:a=inc(m) 7:b1=mix(m,k) 8:b2=mix(b1,k) 9:b3=mix(b2,k) 10:z=mix(a,b3)
pub fn diamond_shapes() -> Vec<Prog> {
    use Rhs::*;
    let k = |c: i32| n(Recipe::Const(c));
    let mut out = vec![];
    // `tall`: number of links of the tall right-hand side; it must end up higher than the join node z already is
    // (bind main + 4), otherwise nothing above the bind is lifted at all
    // `k_is_var`: the second input of the long arm's links is a variable, so that a two-input node above the bind can
    // already be queued (its other input changed) when the bind grows taller in the same stabilise (after seed C02-d)
    for (equal_value, tall, k_is_var) in [(false, 2u8, false), (true, 2, false), (false, 7, false), (true, 7, false), (false, 7, true), (false, 3, true)] {
        let alts: Vec<(u8, u8)> = if tall == 2 { vec![(0, 2), (2, 0), (1, 2)] } else { vec![(0, tall), (tall, 0)] };
        for (e, o) in alts {
            // 0:sel 1:v 2:k 3..3+tall-1: chain over v
            let mut nodes = vec![var(0), var(1), if k_is_var { var(1) } else { k(1) }];
            for i in 0..tall {
                let prev = if i == 0 { 1 } else { 2 + i };
                nodes.push(if equal_value { map2(F2::Max, prev, 1) } else { map(F1::Inc, prev) });
            }
            let link = |d: u8| if d == 0 { 1 } else { 2 + d };
            let m = nodes.len() as u8;
            nodes.push(bind(0, E(link(e)), E(link(o))));
            nodes.push(map(F1::Inc, m)); // a   = m+1
            nodes.push(map2(F2::Mix, m, 2)); // b1
            nodes.push(map2(F2::Mix, m + 2, 2)); // b2
            nodes.push(map2(F2::Mix, m + 3, 2)); // b3
            nodes.push(map2(F2::Mix, m + 1, m + 4)); // z = mix(a, b3)
            let mut p = Prog::new(nodes);
            p.alpha.observable = vec![m + 5, m + 1];
            p.start_observed = vec![m + 5];
            p.alpha.max_observers = 2;
            p.alpha.values = vec![0, 1];
            p.alpha.disallow = false;
            out.push(p);
        }
    }
    out
}
