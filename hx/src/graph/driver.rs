//! plan <-> graph world

use super::families;
use super::prog::Prog;
use super::world::GraphWorld;
use crate::explore::{Marker, Stats};
use crate::plan::{JobDef, Tier};
use std::cell::RefCell;
use std::collections::HashMap;
use std::rc::Rc;
use std::time::Instant;

thread_local! {
    static CACHE: RefCell<HashMap<String, Rc<Vec<Prog>>>> = RefCell::new(HashMap::new());
}

fn progs(job: &JobDef, tier: Tier) -> Rc<Vec<Prog>> {
    let key = format!("{}/{}", job.family, tier.name());
    if let Some(p) = CACHE.with(|c| c.borrow().get(&key).cloned()) {
        return p;
    }
    let p = Rc::new(families::family(&job.family, tier));
    CACHE.with(|c| c.borrow_mut().insert(key, p.clone()));
    p
}

pub fn units(job: &JobDef, tier: Tier) -> usize {
    crate::driver::units::<GraphWorld>(&progs(job, tier), job)
}

pub fn run_unit(job: &JobDef, job_ix: u32, unit: usize, tier: Tier, deadline: Option<Instant>, marker: &Marker, stats: &mut Stats) {
    if job.family.starts_with("c10/differential") {
        let ps = progs(job, tier);
        if let Some(p) = ps.get(unit) {
            super::differential::run(p, &job.cfg(), &job.opts(deadline), (job_ix, unit as u32), marker, stats);
        }
        return;
    }
    if job.family.starts_with("c13/") {
        let ps = progs(job, tier);
        if let Some(p) = ps.get(unit) {
            super::fault::run(p, &job.cfg(), &job.opts(deadline), (job_ix, unit as u32), marker, stats);
        }
        return;
    }
    crate::driver::run_unit::<GraphWorld>(&progs(job, tier), job, job_ix, unit, deadline, marker, stats)
}

pub fn replay(cfg: &crate::core::Cfg, prog: &serde_json::Value, history: &[serde_json::Value]) -> Result<(Vec<(usize, crate::core::Violation)>, Vec<String>, u64), String> {
    if history.last().map_or(false, |h| h.get("differential_for_slot").is_some()) {
        return super::differential::replay(cfg, prog, history);
    }
    if history.last().map_or(false, |h| h.get("fault_at_invocation_of_last_stabilise").is_some()) {
        return super::fault::replay(cfg, prog, history);
    }
    crate::driver::replay::<GraphWorld>(cfg, prog, history)
}

pub fn history_from_choices(job: &JobDef, unit: usize, tier: Tier, choices: &[u16]) -> Option<(serde_json::Value, Vec<serde_json::Value>)> {
    crate::driver::history_from_choices::<GraphWorld>(&progs(job, tier), job, unit, choices)
}
