//! The graph world: programs over the public combinators, executed on the real engine in
//! lock-step with the reference models R1/R2/R3 (DESIGN §3-§6).

pub mod differential;
pub mod driver;
pub mod families;
pub mod fault;
pub mod model;
pub mod prog;
pub mod world;

use crate::val::Val;
use prog::Key;

#[derive(Clone, Debug, PartialEq, Eq, Hash)]
pub enum ObsErr {
    CurrentlyStabilising,
    NeverStabilised,
    Disallowed,
    ObservingInvalid,
    Mismatch,
    Other,
}

impl ObsErr {
    pub fn from_real(e: &incremental::ObserverError) -> ObsErr {
        use incremental::ObserverError as E;
        match e {
            E::CurrentlyStabilising => ObsErr::CurrentlyStabilising,
            E::NeverStabilised => ObsErr::NeverStabilised,
            E::Disallowed => ObsErr::Disallowed,
            E::ObservingInvalid => ObsErr::ObservingInvalid,
            E::Mismatch => ObsErr::Mismatch,
            _ => ObsErr::Other,
        }
    }
}

#[derive(Clone, Debug, PartialEq, Eq, Hash)]
pub enum Upd {
    Init(Val),
    Changed(Val),
    Invalidated,
}

/// One entry of the event log written by instrumented closures.
#[derive(Clone, Debug, PartialEq)]
pub enum Ev {
    /// a node function ran (map, map2.., map_with_old)
    Run { key: Key, args: Vec<Val> },
    /// one call of a fold function
    FoldStep { key: Key, acc: Val, x: Val },
    /// a fold completed one pass over all of its inputs
    FoldDone { key: Key, args: Vec<Val> },
    /// a fold's accumulator did not chain from the initial value
    FoldBad { key: Key, detail: String },
    BindRun { key: Key, gen: u16, arg: Val },
    Cutoff { node: u8, old: Val, new: Val },
    Handler { sub: u8, update: Upd },
    NodeHandler { idx: u8, kind: &'static str },
    /// an observer was read from inside a node function / bind closure / cutoff
    ReadInFn { slot: u8, result: Result<Val, ObsErr> },
    ReadInHandler { sub: u8, slot: u8, result: Result<Val, ObsErr> },
    /// the observability callback of expert node `node` ran (`now` = it became observed)
    ObsChange { node: u8, now: bool },
    /// the on-change edge callback of expert node `node` ran with the child's value
    EdgeCb { node: u8, val: Val },
    /// an observer was read from inside an observability callback
    ReadInObsCb { slot: u8, result: Result<Val, ObsErr> },
}

impl Ev {
    pub fn key(&self) -> Option<&Key> {
        match self {
            Ev::Run { key, .. } | Ev::FoldStep { key, .. } | Ev::FoldDone { key, .. } | Ev::FoldBad { key, .. } | Ev::BindRun { key, .. } => Some(key),
            _ => None,
        }
    }
    /// node functions, bind closures, cutoff functions: what C05 / C09 mean by "node function" / "propagation"
    pub fn is_node_fn(&self) -> bool {
        matches!(self, Ev::Run { .. } | Ev::FoldStep { .. } | Ev::BindRun { .. } | Ev::Cutoff { .. })
    }
    /// any instrumented user closure that is not an update handler (C13: must not run in a refused stabilise)
    pub fn is_user_fn(&self) -> bool {
        matches!(self, Ev::Run { .. } | Ev::FoldStep { .. } | Ev::BindRun { .. } | Ev::Cutoff { .. } | Ev::ObsChange { .. } | Ev::EdgeCb { .. })
    }
}
