//! Interpreter of the scenario language onto the real crates (instrumented closures), stepped
//! in lock-step with `model.rs`, plus the monitors for C01-C07, C09-C11 (DESIGN §6).

use super::model::*;
use super::prog::*;
use super::{Ev, ObsErr, Upd};
use crate::core::*;
use crate::val::*;
use incremental::{Cutoff, Incr, IncrState, Observer, SubscriptionToken, Update, Var, WeakIncr, WeakState};
use serde_json::Value as Json;
use std::cell::{Cell, RefCell};
use std::collections::{BTreeMap, BTreeSet, HashMap};
use std::rc::{Rc, Weak};

pub struct ObsTable {
    /// per observer slot: the public handles (clones) the harness still holds
    pub slots: Vec<Vec<Observer<Val>>>,
}

thread_local! {
    static LOG: RefCell<Vec<Ev>> = RefCell::new(vec![]);
    static INVOCATIONS: Cell<u64> = Cell::new(0);
    static FAULT_AT: Cell<Option<u64>> = Cell::new(None);
    static OBS: RefCell<Option<Weak<RefCell<ObsTable>>>> = RefCell::new(None);
    static READ_IN_CLOSURES: Cell<bool> = Cell::new(false);
    static IN_HANDLER: Cell<Option<u8>> = Cell::new(None);
    static IN_NODE_HANDLER: Cell<bool> = Cell::new(false);
    static IN_OBS_CB: Cell<bool> = Cell::new(false);
    /// what kind of closure the injected fault fired in: 0 = node function / bind closure /
    /// cutoff, 1 = update handler
    static FAULT_FIRED_IN: Cell<Option<u8>> = Cell::new(None);
}

pub fn fault_fired_in() -> Option<u8> {
    FAULT_FIRED_IN.with(|c| c.get())
}
pub fn clear_fault_fired() {
    FAULT_FIRED_IN.with(|c| c.set(None));
}
pub fn reset_handler_flags() {
    IN_HANDLER.with(|c| c.set(None));
    IN_NODE_HANDLER.with(|c| c.set(false));
    IN_OBS_CB.with(|c| c.set(false));
}

pub fn log(ev: Ev) {
    LOG.with(|l| l.borrow_mut().push(ev));
}
pub fn take_log() -> Vec<Ev> {
    LOG.with(|l| std::mem::take(&mut *l.borrow_mut()))
}
pub fn invocations() -> u64 {
    INVOCATIONS.with(|c| c.get())
}
pub fn reset_invocations() {
    INVOCATIONS.with(|c| c.set(0));
}
pub fn set_fault_at(n: Option<u64>) {
    FAULT_AT.with(|c| c.set(n));
}

fn read_observers() {
    if !READ_IN_CLOSURES.with(|c| c.get()) {
        return;
    }
    let table = OBS.with(|o| o.borrow().as_ref().and_then(|w| w.upgrade()));
    let Some(table) = table else { return };
    let Ok(t) = table.try_borrow() else { return };
    let in_handler = IN_HANDLER.with(|c| c.get());
    for (i, slot) in t.slots.iter().enumerate() {
        if let Some(h) = slot.first() {
            let r = h.try_get_value().map_err(|e| ObsErr::from_real(&e));
            match in_handler {
                Some(sub) => log(Ev::ReadInHandler { sub, slot: i as u8, result: r }),
                None if IN_OBS_CB.with(|c| c.get()) => log(Ev::ReadInObsCb { slot: i as u8, result: r }),
                None => {
                    // the panicking accessor too: inside a node function `value()` must not hand out a value either
                    // (it unwraps the same error; the panic is caught right here). Added after seed C07-d.
                    if r.is_err() {
                        if let Ok(v) = std::panic::catch_unwind(std::panic::AssertUnwindSafe(|| h.value())) {
                            log(Ev::ReadInFn { slot: i as u8, result: Ok(v) });
                        }
                    }
                    log(Ev::ReadInFn { slot: i as u8, result: r })
                }
            }
        }
    }
}

/// Called at the start of every user closure: counts the invocation, injects the planned
/// panic (E3), and optionally reads every observer (C07).
pub fn enter() {
    let n = INVOCATIONS.with(|c| {
        let n = c.get();
        c.set(n + 1);
        n
    });
    if FAULT_AT.with(|c| c.get()) == Some(n) {
        let in_handler = IN_HANDLER.with(|c| c.get()).is_some() || IN_NODE_HANDLER.with(|c| c.get());
        FAULT_FIRED_IN.with(|c| c.set(Some(in_handler as u8)));
        panic!("injected fault at user-closure invocation {n}");
    }
    read_observers();
}

fn cut_eq<const N: u8>(a: &Val, b: &Val) -> bool {
    enter();
    log(Ev::Cutoff { node: N, old: a.clone(), new: b.clone() });
    a == b
}
fn cut_par<const N: u8>(a: &Val, b: &Val) -> bool {
    enter();
    log(Ev::Cutoff { node: N, old: a.clone(), new: b.clone() });
    a.num().rem_euclid(2) == b.num().rem_euclid(2)
}
macro_rules! fn_table {
    ($f:ident, $n:expr, $($i:literal),*) => {
        match $n { $($i => $f::<$i> as fn(&Val, &Val) -> bool,)* _ => panic!("too many nodes for logged fn cutoffs") }
    };
}
fn fn_cut_eq(n: u8) -> fn(&Val, &Val) -> bool {
    fn_table!(cut_eq, n, 0, 1, 2, 3, 4, 5, 6, 7, 8, 9, 10, 11, 12, 13, 14, 15)
}
fn fn_cut_par(n: u8) -> fn(&Val, &Val) -> bool {
    fn_table!(cut_par, n, 0, 1, 2, 3, 4, 5, 6, 7, 8, 9, 10, 11, 12, 13, 14, 15)
}

fn apply_cut(incr: &Incr<Val>, n: u8, cut: Cut) {
    match cut {
        Cut::Default => {}
        Cut::Never => incr.set_cutoff(Cutoff::Never),
        Cut::Always => incr.set_cutoff(Cutoff::Always),
        Cut::FnEq => incr.set_cutoff(Cutoff::Fn(fn_cut_eq(n))),
        Cut::FnPar => incr.set_cutoff(Cutoff::Fn(fn_cut_par(n))),
        Cut::BoxEq => incr.set_cutoff_fn_boxed(move |a: &Val, b: &Val| {
            enter();
            log(Ev::Cutoff { node: n, old: a.clone(), new: b.clone() });
            a == b
        }),
        Cut::BoxPar => incr.set_cutoff_fn_boxed(move |a: &Val, b: &Val| {
            enter();
            log(Ev::Cutoff { node: n, old: a.clone(), new: b.clone() });
            a.num().rem_euclid(2) == b.num().rem_euclid(2)
        }),
        Cut::QuietPar => incr.set_cutoff(Cutoff::Fn(|a: &Val, b: &Val| a.num().rem_euclid(2) == b.num().rem_euclid(2))),
    }
}

type Stash = Rc<RefCell<HashMap<Key, WeakIncr<Val>>>>;
type Refs = Rc<HashMap<u8, Incr<Val>>>;

fn captured_map(key: Key, captured: &Val, input: &Incr<Val>, stash: &Stash) -> Incr<Val> {
    let c = captured.clone();
    let k = key.clone();
    let n = input.map(move |x: &Val| {
        enter();
        log(Ev::Run { key: k.clone(), args: vec![x.clone()] });
        captured_mix(&c, x)
    });
    stash.borrow_mut().insert(key, n.weak());
    n
}

fn make_bind(key: Key, lhs: &Incr<Val>, even: Rhs, odd: Rhs, refs: Refs, stash: Stash) -> Incr<Val> {
    let gen = Cell::new(0u16);
    let first: RefCell<Option<Incr<Val>>> = RefCell::new(None);
    let state: WeakState = lhs.state();
    lhs.bind(move |v: &Val| {
        enter();
        let g = gen.get() + 1;
        gen.set(g);
        log(Ev::BindRun { key: key.clone(), gen: g, arg: v.clone() });
        let spec = if parity_even(v) { &even } else { &odd };
        build_rhs(&key, g, spec, v, &refs, &stash, &state, &first)
    })
}

#[allow(clippy::too_many_arguments)]
fn build_rhs(b: &Key, g: u16, spec: &Rhs, captured: &Val, refs: &Refs, stash: &Stash, state: &WeakState, first: &RefCell<Option<Incr<Val>>>) -> Incr<Val> {
    match spec {
        Rhs::E(x) => refs[x].clone(),
        Rhs::F(x) => captured_map(Key::inner(b, g, 0), captured, &refs[x], stash),
        Rhs::FC => {
            let n = state.constant(captured.clone());
            stash.borrow_mut().insert(Key::inner(b, g, 0), n.weak());
            n
        }
        Rhs::FV(current_scope) => {
            let st = state.upgrade().expect("state alive inside a bind closure");
            let var = if *current_scope { st.var_current_scope(captured.clone()) } else { st.var(captured.clone()) };
            let n = var.watch();
            drop(var);
            stash.borrow_mut().insert(Key::inner(b, g, 0), n.weak());
            n
        }
        Rhs::FG(x) => {
            {
                let throwaway = refs[x].map(|x: &Val| x.clone());
                drop(throwaway);
            }
            captured_map(Key::inner(b, g, 1), captured, &refs[x], stash)
        }
        Rhs::FF(x) => {
            let k0 = captured_map(Key::inner(b, g, 0), captured, &refs[x], stash);
            let key1 = Key::inner(b, g, 1);
            let k = key1.clone();
            let n = k0.map(move |x: &Val| {
                enter();
                log(Ev::Run { key: k.clone(), args: vec![x.clone()] });
                F1::Inc.apply(x)
            });
            stash.borrow_mut().insert(key1, n.weak());
            n
        }
        Rhs::NB(l, e, o) => {
            let key = Key::inner(b, g, 0);
            let n = make_bind(key.clone(), &refs[l], (**e).clone(), (**o).clone(), refs.clone(), stash.clone());
            stash.borrow_mut().insert(key, n.weak());
            n
        }
        Rhs::ST(x) => {
            let have = first.borrow().clone();
            match have {
                None => {
                    let n = captured_map(Key::inner(b, g, 0), captured, &refs[x], stash);
                    *first.borrow_mut() = Some(n.clone());
                    n
                }
                Some(n) => n,
            }
        }
    }
}

pub struct GraphWorld {
    pub prog: Rc<Prog>,
    pub cfg: Cfg,
    pub state: IncrState,
    pub nodes: Vec<Option<Incr<Val>>>,
    pub vars: Vec<Option<Var<Val>>>,
    pub obs: Rc<RefCell<ObsTable>>,
    pub subs: Vec<(u8, SubscriptionToken)>,
    pub stash: Stash,
    pub model: Model,
    pub dead: bool,
    obs_hash: u64,
    counters: Counters,
    explain: String,
    /// what each observer slot returned at the probe right after the last stabilise (C07)
    last_read: Vec<Option<Result<Val, ObsErr>>>,
    /// per observer slot: running hash of everything observed *through that observer* (its
    /// reads after every action, the notifications of its subscriptions) - the projection used
    /// by the differential oracle of C10 ("no call affects another observer")
    pub slot_hash: Vec<u64>,
    pub machinery: Vec<String>,
}

fn v(property: &'static str, rule: &'static str, sig: impl Into<String>, detail: impl Into<String>) -> Violation {
    Violation::new(property, rule, sig, detail)
}

impl GraphWorld {
    /// point the thread-local knobs that instrumented closures consult at this world
    pub fn prepare_thread_locals(&self) {
        incremental::verif_knobs::set_handler_order(self.cfg.handler_order);
        OBS.with(|o| *o.borrow_mut() = Some(Rc::downgrade(&self.obs)));
        READ_IN_CLOSURES.with(|c| c.set(self.prog.alpha.closures_read_observers));
        reset_handler_flags();
    }

    fn node(&self, i: u8) -> Incr<Val> {
        self.nodes[i as usize].clone().expect("harness handle dropped")
    }

    fn build_real(&mut self, i: u8) {
        let spec = self.prog.nodes[i as usize].clone();
        let key = Key::Outer(i);
        let mut var = None;
        let incr: Incr<Val> = match &spec.recipe {
            Recipe::Var(init) => {
                let va = self.state.var(Val::I(*init));
                let w = va.watch();
                var = Some(va);
                w
            }
            Recipe::Const(c) => self.state.constant(Val::I(*c)),
            Recipe::Map(f, a) => {
                let f = *f;
                let k = key.clone();
                // a node function may own a Var handle and write it (deferred to the end of the stabilise)
                let write_to: Option<Var<Val>> = match self.prog.alpha.fn_sets_var {
                    Some((node, var)) if node == i => self.vars.get(var as usize).cloned().flatten(),
                    _ => None,
                };
                self.node(*a).map(move |x: &Val| {
                    enter();
                    log(Ev::Run { key: k.clone(), args: vec![x.clone()] });
                    if let Some(var) = &write_to {
                        var.set(Val::I((x.num() + 1).rem_euclid(2)));
                    }
                    f.apply(x)
                })
            }
            Recipe::Map2(f, a, b) => {
                let f = *f;
                let k = key.clone();
                self.node(*a).map2(&self.node(*b), move |x: &Val, y: &Val| {
                    enter();
                    log(Ev::Run { key: k.clone(), args: vec![x.clone(), y.clone()] });
                    f.apply(x, y)
                })
            }
            Recipe::MapN(ins) => {
                let k = key.clone();
                let n: Vec<Incr<Val>> = ins.iter().map(|x| self.node(*x)).collect();
                let run = move |args: Vec<&Val>| -> Val {
                    enter();
                    log(Ev::Run { key: k.clone(), args: args.iter().map(|x| (*x).clone()).collect() });
                    sum(args.into_iter())
                };
                match n.len() {
                    3 => n[0].map3(&n[1], &n[2], move |a, b, c| run(vec![a, b, c])),
                    4 => n[0].map4(&n[1], &n[2], &n[3], move |a, b, c, d| run(vec![a, b, c, d])),
                    5 => n[0].map5(&n[1], &n[2], &n[3], &n[4], move |a, b, c, d, e| run(vec![a, b, c, d, e])),
                    6 => n[0].map6(&n[1], &n[2], &n[3], &n[4], &n[5], move |a, b, c, d, e, f| run(vec![a, b, c, d, e, f])),
                    _ => panic!("MapN needs 3..6 inputs"),
                }
            }
            Recipe::MapRef(a) => self.node(*a).map_ref(|x: &Val| x.fst()),
            Recipe::MapWithOld(a) => {
                let k = key.clone();
                self.node(*a).map_with_old(move |old: Option<Val>, x: &Val| {
                    enter();
                    let args = match &old {
                        Some(o) => vec![o.clone(), x.clone()],
                        None => vec![x.clone()],
                    };
                    log(Ev::Run { key: k.clone(), args });
                    let new = F1::Par.apply(x);
                    let flag = old.as_ref() != Some(&new);
                    (new, flag)
                })
            }
            Recipe::Fold(ins) => {
                let k = key.clone();
                let n: Vec<Incr<Val>> = ins.iter().map(|x| self.node(*x)).collect();
                let len = n.len();
                let mut seen: Vec<Val> = vec![];
                self.state.fold(n, Val::I(0), move |acc: Val, x: &Val| {
                    enter();
                    log(Ev::FoldStep { key: k.clone(), acc: acc.clone(), x: x.clone() });
                    let expect = sum(seen.iter());
                    if acc != expect {
                        log(Ev::FoldBad {
                            key: k.clone(),
                            detail: format!("call {} of a pass got accumulator {:?}, expected {:?}", seen.len(), acc, expect),
                        });
                    }
                    seen.push(x.clone());
                    if seen.len() == len {
                        log(Ev::FoldDone { key: k.clone(), args: std::mem::take(&mut seen) });
                    }
                    Val::I(acc.num().wrapping_add(x.num()))
                })
            }
            Recipe::DependOn(a, b) => self.node(*a).depend_on(&self.node(*b)),
            Recipe::Zip(a, b) => self
                .node(*a)
                .zip(&self.node(*b))
                .map(|(a, b): &(Val, Val)| Val::pair(a.clone(), b.clone())),
            Recipe::Xp(a) => {
                use incremental::expert::{Dependency, Node as XNode};
                let dep: Rc<RefCell<Option<Dependency<Val>>>> = Rc::new(RefCell::new(None));
                let slot: Rc<RefCell<Option<Val>>> = Rc::new(RefCell::new(None));
                let (dep_, slot_, k) = (dep.clone(), slot.clone(), key.clone());
                // an observability callback may own a Var handle (it is not an observer)
                let write_to: Option<Var<Val>> = self.prog.alpha.obs_cb_sets_var.and_then(|v| self.vars.get(v as usize).cloned().flatten());
                let x = XNode::<Val>::new_(
                    &self.state.weak(),
                    move || {
                        enter();
                        let x = dep_.borrow().as_ref().expect("static dependency").value_cloned();
                        log(Ev::Run { key: k.clone(), args: vec![x.clone()] });
                        // the edge callback must have delivered this very value before the recompute
                        debug_assert!(slot_.borrow().is_some());
                        F1::Inc.apply(&x)
                    },
                    move |now: bool| {
                        IN_OBS_CB.with(|c| c.set(true));
                        // clear the flag on unwind too (injected faults)
                        struct Reset;
                        impl Drop for Reset {
                            fn drop(&mut self) {
                                IN_OBS_CB.with(|c| c.set(false));
                            }
                        }
                        let _r = Reset;
                        enter();
                        log(Ev::ObsChange { node: i, now });
                        if let Some(var) = &write_to {
                            var.set(Val::I(now as i32));
                        }
                    },
                );
                let d = x.add_dependency_with(&self.node(*a), move |v: &Val| {
                    enter();
                    log(Ev::EdgeCb { node: i, val: v.clone() });
                    *slot.borrow_mut() = Some(v.clone());
                });
                *dep.borrow_mut() = Some(d);
                x.watch()
            }
            Recipe::Bind { lhs, even, odd } => {
                let mut refs: HashMap<u8, Incr<Val>> = HashMap::new();
                let mut r = vec![];
                even.refs(&mut r);
                odd.refs(&mut r);
                for x in r {
                    refs.insert(x, self.node(x));
                }
                make_bind(key.clone(), &self.node(*lhs), even.clone(), odd.clone(), Rc::new(refs), self.stash.clone())
            }
        };
        apply_cut(&incr, i, spec.cut);
        self.nodes.push(Some(incr));
        self.vars.push(var);
    }

    fn observe_real(&mut self, incr: &Incr<Val>) {
        let o = incr.observe();
        self.obs.borrow_mut().slots.push(vec![o]);
    }

    fn inner2_key(&self, b: u8, k: u8, k2: u8) -> Key {
        let bk = Key::Outer(b);
        let gen = self.model.nodes[&bk].gen;
        let ik = Key::inner(&bk, gen, k);
        let igen = self.model.nodes[&ik].gen;
        Key::inner(&ik, igen, k2)
    }

    fn resolve(&self, key: &Key) -> Option<Incr<Val>> {
        match key {
            Key::Outer(i) => self.nodes.get(*i as usize).cloned().flatten(),
            k => self.stash.borrow().get(k).and_then(|w| w.upgrade()),
        }
    }

    /// executes the action on the real engine; returns API results worth comparing
    fn exec_real(&mut self, a: &Act) -> Option<Result<(), ObsErr>> {
        match a {
            Act::Set(var, d) => {
                self.vars[*var as usize].as_ref().unwrap().set(Val::I(*d));
                None
            }
            Act::Stabilise => {
                self.state.stabilise();
                None
            }
            Act::Observe(n) => {
                let i = self.node(*n);
                self.observe_real(&i);
                None
            }
            Act::ObserveInner(b, k) => {
                let gen = self.model.nodes[&Key::Outer(*b)].gen;
                let key = Key::inner(&Key::Outer(*b), gen, *k);
                let i = self.resolve(&key).expect("stashed inner node is gone");
                self.observe_real(&i);
                None
            }
            Act::ObserveInner2(b, k, k2) => {
                let key = self.inner2_key(*b, *k, *k2);
                let i = self.resolve(&key).expect("stashed nested inner node is gone");
                self.observe_real(&i);
                None
            }
            Act::CloneObs(s) => {
                let mut t = self.obs.borrow_mut();
                let c = t.slots[*s as usize][0].clone();
                t.slots[*s as usize].push(c);
                None
            }
            Act::DropObs(s) => {
                let h = self.obs.borrow_mut().slots[*s as usize].pop();
                drop(h);
                None
            }
            Act::Disallow(s) => {
                let h = self.obs.borrow().slots[*s as usize][0].clone();
                h.disallow_future_use();
                drop(h);
                None
            }
            Act::Subscribe(s) => {
                let idx = self.subs.len() as u8;
                let h = self.obs.borrow().slots[*s as usize][0].clone();
                let own_token: Rc<Cell<Option<SubscriptionToken>>> = Rc::new(Cell::new(None));
                let own_token_ = own_token.clone();
                let self_unsub = self.prog.alpha.handler_self_unsub;
                // (never on a pinned observer: families rely on pinned binds staying observed, DESIGN §8)
                let self_disallow = self.prog.alpha.handler_self_disallow && !self.model.obs[*s as usize].pinned;
                let my_slot = *s as usize;
                let weak_state = self.state.weak();
                // a handler may own a Var handle (it is not an observer)
                let write_to: Option<Var<Val>> = self.prog.alpha.handler_sets_var.and_then(|i| self.vars.get(i as usize).cloned().flatten());
                let r = h.try_subscribe(move |u: Update<&Val>| {
                    IN_HANDLER.with(|c| c.set(Some(idx)));
                    enter();
                    let update = match u {
                        Update::Initialised(x) => Upd::Init(x.clone()),
                        Update::Changed(x) => Upd::Changed(x.clone()),
                        Update::Invalidated => Upd::Invalidated,
                    };
                    let is_changed = matches!(update, Upd::Changed(_));
                    if let (Some(var), Upd::Init(x) | Upd::Changed(x)) = (&write_to, &update) {
                        var.set(Val::I((x.num() + 1).rem_euclid(3)));
                    }
                    log(Ev::Handler { sub: idx, update });
                    if self_unsub && is_changed {
                        if let Some(t) = own_token_.get() {
                            weak_state.unsubscribe(t);
                        }
                    }
                    if self_disallow && is_changed {
                        // the handler does not own an observer: it reaches its own one through the harness table
                        let table = OBS.with(|o| o.borrow().as_ref().and_then(|w| w.upgrade()));
                        if let Some(table) = table {
                            if let Ok(t) = table.try_borrow() {
                                if let Some(h) = t.slots.get(my_slot).and_then(|hs| hs.first()) {
                                    h.disallow_future_use();
                                }
                            }
                        }
                    }
                    IN_HANDLER.with(|c| c.set(None));
                });
                drop(h);
                match r {
                    Ok(tok) => {
                        own_token.set(Some(tok));
                        self.subs.push((*s, tok));
                        Some(Ok(()))
                    }
                    Err(e) => Some(Err(ObsErr::from_real(&e))),
                }
            }
            Act::Unsubscribe(s, t) => {
                let tok = self.subs[*t as usize].1;
                let h = self.obs.borrow().slots[*s as usize][0].clone();
                let r = h.unsubscribe(tok).map_err(|e| ObsErr::from_real(&e));
                drop(h);
                Some(r)
            }
            Act::StateUnsubscribe(t) => {
                let tok = self.subs[*t as usize].1;
                self.state.unsubscribe(tok);
                None
            }
            Act::DropHandle(n) => {
                let h = self.nodes[*n as usize].take();
                let va = self.vars[*n as usize].take();
                drop(va);
                drop(h);
                None
            }
            Act::CreateNext => {
                let i = self.nodes.len() as u8;
                self.build_real(i);
                None
            }
            Act::OnUpdate(n) => {
                let idx = self.model.node_handlers.len() as u8;
                self.node(*n).on_update(move |u| {
                    IN_NODE_HANDLER.with(|c| c.set(true));
                    enter();
                    IN_NODE_HANDLER.with(|c| c.set(false));
                    let kind = match u {
                        incremental::NodeUpdate::Necessary(_) => "necessary",
                        incremental::NodeUpdate::Changed(_) => "changed",
                        incremental::NodeUpdate::Invalidated => "invalidated",
                        incremental::NodeUpdate::Unnecessary => "unnecessary",
                    };
                    log(Ev::NodeHandler { idx, kind });
                });
                None
            }
        }
    }

    /// the same action on the reference models; returns the expected API result and the
    /// round output for `Stabilise`
    fn exec_model(&mut self, a: &Act) -> (Option<Result<(), ObsErr>>, Option<RoundOut>) {
        let m = &mut self.model;
        match a {
            Act::Set(var, d) => {
                m.set_var(*var, *d);
                (None, None)
            }
            Act::Stabilise => (None, Some(m.round())),
            Act::Observe(n) => {
                m.observe(Key::Outer(*n), false);
                (None, None)
            }
            Act::ObserveInner(b, k) => {
                let gen = m.nodes[&Key::Outer(*b)].gen;
                m.observe(Key::inner(&Key::Outer(*b), gen, *k), false);
                (None, None)
            }
            Act::ObserveInner2(b, k, k2) => {
                let bk = Key::Outer(*b);
                let gen = m.nodes[&bk].gen;
                let ik = Key::inner(&bk, gen, *k);
                let igen = m.nodes[&ik].gen;
                m.observe(Key::inner(&ik, igen, *k2), false);
                (None, None)
            }
            Act::CloneObs(s) => {
                m.obs[*s as usize].handles += 1;
                (None, None)
            }
            Act::DropObs(s) => {
                let o = &mut m.obs[*s as usize];
                o.handles -= 1;
                if o.handles == 0 {
                    m.kill_observer(*s);
                }
                (None, None)
            }
            Act::Disallow(s) => {
                m.kill_observer(*s);
                (None, None)
            }
            Act::Subscribe(s) => {
                let o = &m.obs[*s as usize];
                if o.state == OState::Dead {
                    return (Some(Err(ObsErr::Disallowed)), None);
                }
                let on_invalid = !m.nodes[&o.key].valid;
                m.subs.push(SubM {
                    slot: *s,
                    active: true,
                    got_any: false,
                    got_invalidated: false,
                    created_at: m.now,
                    on_invalid,
                    delivered: 0,
                    last: None,
                });
                (Some(Ok(())), None)
            }
            Act::Unsubscribe(s, t) => {
                let owner = m.subs[*t as usize].slot;
                if owner != *s {
                    return (Some(Err(ObsErr::Mismatch)), None);
                }
                if m.obs[*s as usize].state != OState::Dead {
                    m.subs[*t as usize].active = false;
                }
                (Some(Ok(())), None)
            }
            Act::StateUnsubscribe(t) => {
                // silent; a no-op once the observer is gone
                let owner = m.subs[*t as usize].slot;
                if m.obs[owner as usize].state != OState::Dead {
                    m.subs[*t as usize].active = false;
                }
                (None, None)
            }
            Act::DropHandle(n) => {
                m.handle_alive[*n as usize] = false;
                (None, None)
            }
            Act::CreateNext => {
                m.create_next();
                (None, None)
            }
            Act::OnUpdate(n) => {
                m.node_handlers.push(*n);
                (None, None)
            }
        }
    }

    fn note(&mut self, k: &'static str) {
        *self.counters.entry(k).or_insert(0) += 1;
    }

    /// C02/C03/C05/C06/C09 on the event log of one stabilise
    fn check_round(&mut self, log: &[Ev], out: &RoundOut, recomputed_delta: usize, vs: &mut Vec<Violation>) -> Vec<(Key, Vec<Val>)> {
        let mut extra_runs: Vec<(Key, Vec<Val>)> = vec![];
        let armed = |p: &str| self.cfg.is_armed(p);
        let pure = self.prog.is_pure_class();
        let m = &self.model;
        let kind_of = |k: &Key| m.nodes.get(k).map_or("?", |n| n.kind.name());
        // index the log
        let mut runs: BTreeMap<Key, Vec<Vec<Val>>> = BTreeMap::new();
        let mut fold_done: BTreeMap<Key, Vec<Vec<Val>>> = BTreeMap::new();
        let mut fold_steps: BTreeMap<Key, usize> = BTreeMap::new();
        let mut bind_runs: BTreeMap<Key, Vec<(u16, Val)>> = BTreeMap::new();
        let mut cutoffs: Vec<(u8, Val, Val)> = vec![];
        let mut handlers: BTreeMap<u8, Vec<Upd>> = BTreeMap::new();
        let mut first_handler_pos: Option<usize> = None;
        let mut last_fn_pos: Option<usize> = None;
        for (pos, ev) in log.iter().enumerate() {
            match ev {
                Ev::Run { key, args } => runs.entry(key.clone()).or_default().push(args.clone()),
                Ev::FoldStep { key, .. } => *fold_steps.entry(key.clone()).or_default() += 1,
                Ev::FoldDone { key, args } => fold_done.entry(key.clone()).or_default().push(args.clone()),
                Ev::FoldBad { key, detail } => {
                    if armed("C02") {
                        vs.push(v("C02", "C02.fold_pass", kind_of(key), format!("fold {key:?}: {detail}")));
                    }
                }
                Ev::BindRun { key, gen, arg } => bind_runs.entry(key.clone()).or_default().push((*gen, arg.clone())),
                Ev::Cutoff { node, old, new } => cutoffs.push((*node, old.clone(), new.clone())),
                Ev::Handler { sub, update } => {
                    handlers.entry(*sub).or_default().push(update.clone());
                    first_handler_pos.get_or_insert(pos);
                }
                Ev::NodeHandler { .. } => {
                    first_handler_pos.get_or_insert(pos);
                }
                Ev::ReadInFn { slot, result } => {
                    if armed("C07") {
                        let ok = match result {
                            Err(ObsErr::CurrentlyStabilising) => true,
                            Err(_) => m.obs.get(*slot as usize).map_or(true, |o| o.state != OState::InUse),
                            Ok(_) => false,
                        };
                        if !ok {
                            vs.push(v("C07", "C07.read_in_fn", "", format!("observer slot {slot} read from inside a node function returned {result:?}, expected Err(CurrentlyStabilising)")));
                        }
                    }
                }
                Ev::ObsChange { .. } | Ev::EdgeCb { .. } => {}
                Ev::ReadInObsCb { slot, result } => {
                    // An observability callback is user code running inside stabilise(), but not a node function:
                    // the property only demands that no value moves before the boundary. Accepted: the
                    // CurrentlyStabilising error, or exactly what the handle returned after the last stabilise.
                    if armed("C07") {
                        let last = self.last_read.get(*slot as usize).cloned().flatten();
                        let ok = match result {
                            Err(_) => true,
                            r => last.as_ref() == Some(r),
                        };
                        if !ok {
                            vs.push(v("C07", "C07.read_in_obs_callback", "", format!("observer slot {slot} read from inside an observability callback returned {result:?}; accepted: an error or its value after the last stabilise ({last:?})")));
                        }
                    }
                }
                Ev::ReadInHandler { sub, slot, result } => {
                    if armed("C07") {
                        let exp = m.expected_read(*slot);
                        let ok = match (result, &exp) {
                            (Err(ObsErr::CurrentlyStabilising), _) => m.subs[*sub as usize].slot != *slot,
                            (r, e) => r == e,
                        };
                        if !ok {
                            vs.push(v("C07", "C07.read_in_handler", "", format!("handler of subscription {sub} read observer slot {slot}: got {result:?}, end-of-round value is {exp:?}")));
                        }
                    }
                }
            }
            if ev.is_node_fn() {
                last_fn_pos = Some(pos);
            }
        }
        if fold_steps.len() > 0 {
            for (k, n) in fold_steps.iter() {
                let RKind::Fold(ins) = &m.nodes[k].kind else { continue };
                let passes = fold_done.get(k).map_or(0, |p| p.len());
                if armed("C02") && *n != passes * ins.len() {
                    vs.push(v("C02", "C02.fold_pass", "partial", format!("fold {k:?} was called {n} times, which is not a whole number of passes over its {} inputs", ins.len())));
                }
            }
        }
        // the values inputs have at the end of this stabilise
        let final_val = |k: &Key| -> Option<Val> {
            let n = m.nodes.get(k)?;
            if !n.valid {
                return None;
            }
            if pure {
                m.r1(k)
            } else {
                n.val.clone()
            }
        };
        let stale_scope = |k: &Key| -> Option<String> {
            // any enclosing bind whose generation moved on (or which became invalid)
            let mut cur = k;
            while let Some((b, g)) = cur.scope() {
                match m.nodes.get(b) {
                    Some(bn) if bn.valid && bn.gen == g => {}
                    Some(bn) => return Some(format!("created by generation {g} of bind {b:?}, which is now at generation {} (valid={})", bn.gen, bn.valid)),
                    None => return Some(format!("bind {b:?} unknown")),
                }
                cur = b;
            }
            None
        };
        // Transient cone: a bind that was in the cone (at the start or at the end) and whose closure ran in this round adopted
        // the outer nodes its chosen alternative refers to; they were needed from that moment on, even if a *later* step of the
        // same round (another bind switching away) released the whole branch again, so that they are in neither of the two
        // cones the property names. A height-ordered engine cannot know at that moment; like the nodes created during the
        // round (DESIGN §8) they are attributed to the bind. (False alarm found on the unchanged tree by `shapes/binds-started`
        // before that family was registered.)
        let mut transient_roots: Vec<Key> = vec![];
        for (bk, runs) in bind_runs.iter() {
            let in_cone = {
                let mut cur: &Key = bk;
                let mut hit = out.cone_start.contains(cur) || out.cone_end.contains(cur);
                while let (false, Some((b, _))) = (hit, cur.scope()) {
                    hit = out.cone_start.contains(b) || out.cone_end.contains(b);
                    cur = b;
                }
                hit
            };
            if !in_cone {
                continue;
            }
            if let Some(RKind::Bind { even, odd, .. }) = m.nodes.get(bk).map(|n| n.kind.clone()) {
                for (_g, arg) in runs.iter() {
                    let spec = if parity_even(arg) { &even } else { &odd };
                    let mut refs = vec![];
                    spec.refs(&mut refs);
                    transient_roots.extend(refs.into_iter().map(Key::Outer));
                }
            }
        }
        let transient: BTreeSet<Key> = if transient_roots.is_empty() { BTreeSet::new() } else { m.reach(&transient_roots) };
        // Within a round the cone only changes when a bind closure runs. After the last bind closure of the round it equals
        // the end cone, so the transient allowance covers only invocations logged *before* that last closure run: a node that
        // runs after everything has been released is outside every cone the engine could have believed in (seed C05-a: a
        // released node left in the recompute heap).
        let last_bind_pos: Option<usize> = log.iter().rposition(|e| matches!(e, Ev::BindRun { .. }));
        let last_run_pos = |k: &Key| -> Option<usize> { log.iter().rposition(|e| matches!(e, Ev::Run { key, .. } | Ev::FoldDone { key, .. } | Ev::FoldStep { key, .. } if key == k)) };
        let allowed_cone = |k: &Key| -> bool {
            if out.cone_start.contains(k) || out.cone_end.contains(k) {
                return true;
            }
            if transient.contains(k) {
                match (last_run_pos(k), last_bind_pos) {
                    (Some(r), Some(b)) if r < b => return true,
                    (None, _) => return true,
                    _ => {}
                }
            }
            // nodes created during this round by a bind that was needed (DESIGN §8)
            let mut cur = k;
            while let Some((b, _)) = cur.scope() {
                if out.cone_start.contains(b) || out.cone_end.contains(b) {
                    return true;
                }
                cur = b;
            }
            false
        };

        let all_keys: BTreeSet<&Key> = runs.keys().chain(fold_done.keys()).chain(fold_steps.keys()).chain(bind_runs.keys()).collect();
        for k in all_keys.iter() {
            let times = runs.get(*k).map_or(0, |r| r.len()) + fold_done.get(*k).map_or(0, |r| r.len()) + bind_runs.get(*k).map_or(0, |r| r.len());
            if armed("C02") && times > 1 {
                vs.push(v("C02", "C02.once", kind_of(k), format!("{k:?} ({}) ran {times} times in one stabilise", kind_of(k))));
            }
            if armed("C03") {
                if let Some(why) = stale_scope(k) {
                    vs.push(v("C03", "C03.stale_run", kind_of(k), format!("{k:?} ran although it was {why}")));
                }
            }
            if armed("C05") && !allowed_cone(k) {
                vs.push(v("C05", "C05.outside_cone", kind_of(k), format!("{k:?} ({}) ran but is in the dependency cone of no live observer ({} live)", kind_of(k), out.live_observers)));
            }
        }
        if armed("C05") && out.live_observers == 0 {
            let user_fns = log.iter().filter(|e| e.is_node_fn()).count();
            if user_fns > 0 || recomputed_delta > 0 {
                vs.push(v("C05", "C05.no_observers", "", format!("no live observers, yet {user_fns} user functions ran and stats().recomputed moved by {recomputed_delta}")));
            }
        }
        // arguments
        if armed("C02") {
            for (k, rs) in runs.iter() {
                if !out.cone_end.contains(k) {
                    continue;
                }
                let n = &m.nodes[k];
                let ins = n.kind.inputs();
                let Some(mut exp) = ins.iter().map(|c| final_val(c)).collect::<Option<Vec<Val>>>() else { continue };
                for args in rs {
                    let mut got = args.clone();
                    if let RKind::MapWithOld(_) = n.kind {
                        // (old?, x): compare x here
                        got = vec![got.last().cloned().unwrap_or_default()];
                        exp.truncate(1);
                    }
                    if got != exp {
                        vs.push(v("C02", "C02.final_args", kind_of(k), format!("{k:?} ({}) ran with arguments {args:?}, but its inputs end the stabilise with {exp:?}", kind_of(k))));
                    }
                }
            }
            for (k, ps) in fold_done.iter() {
                if !out.cone_end.contains(k) {
                    continue;
                }
                let ins = m.nodes[k].kind.inputs();
                let Some(exp) = ins.iter().map(|c| final_val(c)).collect::<Option<Vec<Val>>>() else { continue };
                for args in ps {
                    if *args != exp {
                        vs.push(v("C02", "C02.final_args", "Fold", format!("fold {k:?} saw {args:?}, but its inputs end the stabilise with {exp:?}")));
                    }
                }
            }
            for (k, bs) in bind_runs.iter() {
                if !out.cone_end.contains(k) {
                    continue;
                }
                let RKind::Bind { lhs, .. } = &m.nodes[k].kind else { continue };
                let Some(exp) = final_val(lhs) else { continue };
                for (_, arg) in bs {
                    if *arg != exp {
                        vs.push(v("C02", "C02.final_args", "Bind", format!("bind closure {k:?} ran with {arg:?}, but its input ends the stabilise with {exp:?}")));
                    }
                }
            }
        }
        // "changes are never lost" alone (C06), where the other direction is not judged
        if armed("C06") && self.prog.missed_only() {
            for (k, args) in out.runs.iter() {
                if out.cone_end.contains(k) && !(runs.contains_key(k) || fold_steps.contains_key(k)) {
                    vs.push(v("C06", "C06.missed", kind_of(k), format!("{k:?} ({}) was not re-invoked although an input produced a result its cutoff did not suppress (expected arguments {args:?})", kind_of(k))));
                }
            }
            for (k, _, _) in out.bind_runs.iter() {
                if out.cone_end.contains(k) && !bind_runs.contains_key(k) {
                    vs.push(v("C06", "C06.missed", "Bind", format!("bind closure {k:?} did not re-run although its input changed")));
                }
            }
        }
        // exact ran-set (C06)
        if armed("C06") && self.prog.exact_ran() {
            let exp_runs: BTreeMap<&Key, &Vec<Val>> = out.runs.iter().map(|(k, a)| (k, a)).collect();
            for (k, args) in exp_runs.iter() {
                if !out.cone_end.contains(*k) {
                    continue;
                }
                let ran = runs.contains_key(*k) || fold_steps.contains_key(*k);
                if !ran {
                    vs.push(v("C06", "C06.missed", kind_of(k), format!("{k:?} ({}) was not re-invoked although an input produced a result its cutoff did not suppress (expected arguments {args:?})", kind_of(k))));
                }
            }
            // spurious re-invocations, in log order (so that consequences follow causes)
            let mut explained: BTreeSet<Key> = BTreeSet::new();
            // the known finding travels up a chain of map_refs: a map_ref over a map_ref that counts as changed counts
            // as changed itself (found by C06 thorough on `mapref_chain`, 9 actions; the first version attributed only
            // direct dependants and reported the chained case under the plain signature -- a false alarm)
            let mut reobserved: BTreeSet<Key> = out.mapref_reobserved_unchanged.clone();
            loop {
                let more: Vec<Key> = m
                    .nodes
                    .iter()
                    .filter(|(k, n)| !reobserved.contains(*k) && matches!(&n.kind, RKind::MapRef(a) if reobserved.contains(a)))
                    .map(|(k, _)| k.clone())
                    .collect();
                if more.is_empty() {
                    break;
                }
                reobserved.extend(more);
            }
            for ev in log.iter() {
                let (k, args) = match ev {
                    Ev::Run { key, args } => (key, args.clone()),
                    Ev::FoldDone { key, args } => (key, args.clone()),
                    _ => continue,
                };
                if !out.cone_end.contains(k) || exp_runs.contains_key(k) {
                    continue;
                }
                // Known finding (DESIGN §10): a map_ref that was outside every cone while its
                // input changed is treated as changed when it is needed again, even if the
                // projection is the same; its dependants then re-run on unchanged arguments.
                let n = &m.nodes[k];
                let by_known = n.kind.inputs().iter().any(|i| reobserved.contains(i) || explained.contains(i));
                if by_known {
                    vs.push(v("C06", "C06.spurious", "after-mapref-reobserved", format!("{k:?} ({}) was re-invoked on unchanged arguments {args:?}: its map_ref input was not needed while the map_ref's own input changed, and counts as changed when needed again although the projection is equal", kind_of(k))));
                    // does the re-run itself propagate? only if its cutoff lets an equal value through
                    if let Some(old) = &n.val {
                        if !n.cut.suppresses(old, old) {
                            explained.insert(k.clone());
                        }
                    }
                    extra_runs.push((k.clone(), args));
                } else {
                    vs.push(v("C06", "C06.spurious", kind_of(k), format!("{k:?} ({}) was re-invoked although none of its inputs changed since it last ran", kind_of(k))));
                }
            }
            let exp_binds: BTreeSet<&Key> = out.bind_runs.iter().map(|(k, _, _)| k).collect();
            for k in exp_binds.iter() {
                if out.cone_end.contains(*k) && !bind_runs.contains_key(*k) {
                    vs.push(v("C06", "C06.missed", "Bind", format!("bind closure {k:?} did not re-run although its input changed")));
                }
            }
            for k in bind_runs.keys() {
                if out.cone_end.contains(k) && !exp_binds.contains(k) {
                    vs.push(v("C06", "C06.spurious", "Bind", format!("bind closure {k:?} re-ran although its input did not change")));
                }
            }
            // cutoff functions are consulted with (old, new), once per recompute
            let mut exp_c: Vec<(u8, Val, Val)> = out
                .cutoffs
                .iter()
                .filter_map(|(k, o, n)| match k {
                    Key::Outer(i) if out.cone_end.contains(k) && !matches!(m.nodes[k].kind, RKind::MapRef(_)) => Some((*i, o.clone(), n.clone())),
                    _ => None,
                })
                .collect();
            let mut got_c: Vec<(u8, Val, Val)> = cutoffs
                .iter()
                .filter(|(i, _, _)| out.cone_end.contains(&Key::Outer(*i)) && !matches!(m.nodes[&Key::Outer(*i)].kind, RKind::MapRef(_)))
                .cloned()
                .collect();
            exp_c.sort();
            got_c.sort();
            if exp_c != got_c {
                vs.push(v("C06", "C06.cutoff_args", "", format!("cutoff functions were called with {got_c:?}, expected (old,new) pairs {exp_c:?}")));
            }
        }
        // notifications (C09)
        if armed("C09") {
            let all_subs: BTreeSet<u8> = handlers.keys().copied().chain(out.notes.keys().copied()).collect();
            for s in all_subs {
                let got = handlers.get(&s).cloned().unwrap_or_default();
                let exp: Vec<Upd> = out.notes.get(&s).cloned().into_iter().collect();
                let optional = out.optional_invalidated.contains(&s);
                let ok = got == exp || (optional && got == vec![Upd::Invalidated]);
                if !ok {
                    let sm = &m.subs[s as usize];
                    let what = if got.len() > exp.len() {
                        if !sm.active || m.obs[sm.slot as usize].state == OState::Dead {
                            "after_end"
                        } else {
                            "spurious"
                        }
                    } else if got.len() < exp.len() {
                        "missing"
                    } else {
                        "wrong"
                    };
                    vs.push(v("C09", "C09.sequence", what, format!("subscription {s} (observer slot {}, active={}) received {got:?} at the end of this stabilise, expected {exp:?}", sm.slot, sm.active)));
                }
            }
            if let (Some(h), Some(f)) = (first_handler_pos, last_fn_pos) {
                if h < f {
                    vs.push(v("C09", "C09.order", "", "an update handler ran before propagation was complete".to_string()));
                }
            }
        }
        extra_runs
    }

    fn probe(&mut self, after_stabilise: bool, check: bool, vs: &mut Vec<Violation>) {
        let table = self.obs.clone();
        let t = table.borrow();
        let pure = self.prog.is_pure_class();
        for (s, handles) in t.slots.iter().enumerate() {
            let exp = self.model.expected_read(s as u8);
            let o = &self.model.obs[s];
            while self.last_read.len() <= s {
                self.last_read.push(None);
            }
            for h in handles.iter() {
                let got = h.try_get_value().map_err(|e| ObsErr::from_real(&e));
                self.obs_hash = hash64(&(self.obs_hash, s, &got));
                while self.slot_hash.len() <= s {
                    self.slot_hash.push(0);
                }
                self.slot_hash[s] = hash64(&(self.slot_hash[s], &got));
                let held = self.last_read[s].clone();
                if after_stabilise {
                    self.last_read[s] = Some(got.clone());
                }
                if !check {
                    continue;
                }
                // C07: between two stabilise calls an in-use observer keeps returning what it
                // returned at the end of the last one
                if !after_stabilise && o.state == OState::InUse && self.cfg.is_armed("C07") {
                    if let Some(held) = &held {
                        if *held != got {
                            vs.push(v("C07", "C07.moved", "", format!("observer slot {s} on {:?} returned {held:?} at the end of the last stabilise and now returns {got:?} although no stabilise ran in between", o.key)));
                            continue;
                        }
                    }
                }
                // from-scratch value for C01
                if after_stabilise && o.state == OState::InUse {
                    let n = &self.model.nodes[&o.key];
                    if n.valid {
                        if pure {
                            let r1 = self.model.r1(&o.key);
                            if r1.is_some() && r1 != n.val && !self.prog.has_stale_rhs() {
                                self.machinery.push(format!("reference models disagree on {:?}: R1={:?} R2={:?}", o.key, r1, n.val));
                            }
                            if let Some(r1) = r1 {
                                if got != Ok(r1.clone()) && self.cfg.is_armed("C01") {
                                    vs.push(v("C01", "C01.value", n.kind.name(), format!("observer slot {s} on {:?} ({}) returned {got:?} after stabilise; evaluating its expression from scratch gives {r1:?}", o.key, n.kind.name())));
                                }
                                if got != Ok(r1.clone()) && self.cfg.is_armed("C07") {
                                    vs.push(v("C07", "C07.snapshot", n.kind.name(), format!("at the end of stabilise observer slot {s} on {:?} shows {got:?}, which is not its value ({r1:?}) under the variable assignment that was current when stabilise was called", o.key)));
                                }
                                continue;
                            }
                        } else if got != exp && self.cfg.is_armed("C06") {
                            vs.push(v("C06", "C06.value", n.kind.name(), format!("observer slot {s} on {:?} returned {got:?} after stabilise; cutoff-aware reference gives {exp:?}", o.key)));
                            continue;
                        }
                    } else if got != exp {
                        if self.cfg.is_armed("C03") {
                            vs.push(v("C03", "C03.invalid_read", "", format!("observer slot {s} on invalid node {:?} returned {got:?}, expected Err(ObservingInvalid)", o.key)));
                        }
                        continue;
                    }
                }
                if got != exp {
                    match (&got, &exp) {
                        // value disagreements between rounds are consequences of an earlier
                        // C01/C06 disagreement, already reported there
                        (Ok(_), Ok(_)) => {}
                        _ => {
                            if exp == Err(ObsErr::NeverStabilised) && self.cfg.is_armed("C07") {
                                vs.push(v("C07", "C07.new_observer", "", format!("observer slot {s} has not been through a stabilise yet but returned {got:?} instead of Err(NeverStabilised)")));
                            }
                            if self.cfg.is_armed("C10") {
                                vs.push(v("C10", "C10.read", format!("{exp:?}").split('(').next().unwrap_or(""), format!("observer slot {s} ({:?}, {} handles) returned {got:?}, lifecycle model says {exp:?}", o.state, o.handles)));
                            }
                        }
                    }
                }
            }
        }
    }
}

impl World for GraphWorld {
    type Prog = Prog;
    type Action = Act;

    fn new(prog: &Prog, cfg: &Cfg) -> Self {
        incremental::verif_knobs::set_handler_order(cfg.handler_order);
        let prog = Rc::new(prog.clone());
        let mut w = GraphWorld {
            prog: prog.clone(),
            cfg: cfg.clone(),
            state: IncrState::new(),
            nodes: vec![],
            vars: vec![],
            obs: Rc::new(RefCell::new(ObsTable { slots: vec![] })),
            subs: vec![],
            stash: Rc::new(RefCell::new(HashMap::new())),
            model: Model::new(prog.clone()),
            dead: false,
            obs_hash: 0,
            counters: Counters::new(),
            explain: String::new(),
            last_read: vec![],
            slot_hash: vec![],
            machinery: vec![],
        };
        for i in 0..prog.precreated {
            w.build_real(i);
        }
        for p in prog.pinned.iter() {
            let i = w.node(*p);
            w.observe_real(&i);
        }
        for n in prog.start_on_update.iter() {
            let _ = w.step(&Act::OnUpdate(*n), false);
        }
        if !prog.start_observed.is_empty() {
            for n in prog.start_observed.iter() {
                let _ = w.step(&Act::Observe(*n), false);
            }
            let _ = w.step(&Act::Stabilise, false);
            w.obs_hash = 0;
        }
        w
    }

    fn enabled(&self) -> Vec<Act> {
        let a = &self.prog.alpha;
        let m = &self.model;
        let mut out = vec![Act::Stabilise];
        for var in self.prog.vars() {
            if var < m.created && m.handle_alive[var as usize] {
                let cur = m.nodes[&Key::Outer(var)].logical.num();
                for d in a.values.iter() {
                    // writing the current value is part of the alphabet too (equal-value writes)
                    let _ = cur;
                    out.push(Act::Set(var, *d));
                }
            }
        }
        let live = m.live_slots();
        if a.observe && (live.len() as u8) < a.max_observers + m.obs.iter().filter(|o| o.pinned).count() as u8 {
            for n in 0..m.created {
                if m.handle_alive[n as usize] && (a.observable.is_empty() || a.observable.contains(&n)) {
                    out.push(Act::Observe(n));
                }
            }
            if a.observe_inner {
                for b in self.prog.pinned.iter() {
                    let bk = Key::Outer(*b);
                    let Some(bn) = m.nodes.get(&bk) else { continue };
                    if !bn.valid || bn.gen == 0 || !matches!(bn.kind, RKind::Bind { .. }) {
                        continue;
                    }
                    if m.obs.iter().any(|o| o.pinned && o.key == bk && o.state != OState::InUse) {
                        continue;
                    }
                    for mk in bn.made.iter() {
                        let Key::Inner(_, _, k) = mk else { continue };
                        let n = &m.nodes[mk];
                        if n.valid && !matches!(n.kind, RKind::Dead) && self.resolve(mk).is_some() {
                            out.push(Act::ObserveInner(*b, *k));
                        }
                        // nodes made by a nested bind, while that nested bind is the pinned bind's
                        // current right-hand side (so that it is needed, DESIGN §8)
                        if n.valid && matches!(n.kind, RKind::Bind { .. }) && n.gen > 0 && bn.rhs.as_ref() == Some(mk) {
                            for mk2 in n.made.iter() {
                                let Key::Inner(_, _, k2) = mk2 else { continue };
                                let n2 = &m.nodes[mk2];
                                if n2.valid && !matches!(n2.kind, RKind::Dead) && self.resolve(mk2).is_some() {
                                    out.push(Act::ObserveInner2(*b, *k, *k2));
                                }
                            }
                        }
                    }
                }
            }
        }
        for s in live.iter() {
            let o = &m.obs[*s as usize];
            if o.pinned {
                continue;
            }
            if a.drop_obs {
                out.push(Act::DropObs(*s));
            }
            if a.disallow {
                out.push(Act::Disallow(*s));
            }
            if a.clone_obs && o.handles < 2 {
                out.push(Act::CloneObs(*s));
            }
        }
        // dead observers whose handles the harness still holds can still be called
        for (s, o) in m.obs.iter().enumerate() {
            let s = s as u8;
            if o.handles == 0 {
                continue;
            }
            if o.state == OState::Dead && a.drop_obs && !o.pinned {
                out.push(Act::DropObs(s));
            }
            if a.subscribe && (m.subs.len() as u8) < a.max_subs {
                out.push(Act::Subscribe(s));
            }
            if a.unsubscribe {
                for t in 0..m.subs.len() as u8 {
                    out.push(Act::Unsubscribe(s, t));
                }
            }
        }
        if a.state_unsubscribe {
            for t in 0..m.subs.len() as u8 {
                out.push(Act::StateUnsubscribe(t));
            }
        }
        if a.drop_handle {
            for n in 0..m.created {
                if m.handle_alive[n as usize] && !self.prog.pinned.contains(&n) {
                    // later recipes still need the handles of their inputs
                    let needed_later = self.prog.nodes[m.created as usize..].iter().any(|s| s.recipe.inputs().contains(&n));
                    if !needed_later {
                        out.push(Act::DropHandle(n));
                    }
                }
            }
        }
        if (m.created as usize) < self.prog.nodes.len() {
            out.push(Act::CreateNext);
        }
        if a.on_update && m.node_handlers.len() < 1 {
            for n in 0..m.created {
                if m.handle_alive[n as usize] {
                    out.push(Act::OnUpdate(n));
                }
            }
        }
        out
    }

    fn step(&mut self, a: &Act, check: bool) -> Vec<Violation> {
        let mut vs = vec![];
        self.explain.clear();
        self.prepare_thread_locals();
        let _ = take_log();
        let before = self.state.stats();
        let res = {
            let this = &mut *self;
            catch(move || this.exec_real(a))
        };
        let log = take_log();
        let real_api = match res {
            Ok(r) => r,
            Err(p) => {
                self.dead = true;
                self.explain = format!("PANIC at {}: {}", p.short_location(), p.first_line());
                if self.cfg.is_armed("C04") || true {
                    let kind = format!("{a:?}");
                    let kind = kind.split('(').next().unwrap_or("").to_string();
                    vs.push(v("C04", "C04.panic", format!("{}@{}", kind, p.short_location()), format!("{a:?} panicked at {}: {}", p.short_location(), p.first_line())));
                }
                // C03: observers of nodes made by an outdated bind run, and of map-like nodes over them, "report the node
                // as invalid". A stabilise that panics where the reference ends the round with an in-use observer on an
                // invalid node did not do that (after seed C03-f). The world is dead afterwards, so advancing the
                // reference here cannot disturb anything.
                if *a == Act::Stabilise && self.cfg.is_armed("C03") {
                    let _ = self.exec_model(a);
                    let on_invalid: Vec<String> = self.model.obs.iter().filter(|o| o.state == OState::InUse && self.model.nodes.get(&o.key).map_or(false, |n| !n.valid)).map(|o| format!("{:?}", o.key)).collect();
                    if !on_invalid.is_empty() {
                        vs.push(v("C03", "C03.panic_instead_of_invalid", "", format!("stabilise panicked at {} ({}) in a round after which the observers on {} must read Err(ObservingInvalid)", p.short_location(), p.first_line(), on_invalid.join(", "))));
                    }
                }
                return vs;
            }
        };
        let after = self.state.stats();
        let (model_api, mut round) = self.exec_model(a);
        if self.prog.alpha.handler_self_disallow {
            if let Some(out) = round.as_mut() {
                let asc = self.cfg.handler_order.unwrap_or(true);
                self.model.apply_self_disallow(out, asc);
            }
        }
        if check && real_api != model_api && self.cfg.is_armed("C10") {
            vs.push(v("C10", "C10.api_result", format!("{model_api:?}"), format!("{a:?} returned {real_api:?}, lifecycle model says {model_api:?}")));
        }
        if let Some(out) = &round {
            // the engine's conservative treatment of re-observed map_refs (known finding) is
            // followed whether or not this step is judged, so that replayed prefixes agree
            let mut scratch = vec![];
            let mut armed_c06 = self.cfg.clone();
            if !armed_c06.armed.is_empty() && !armed_c06.armed.contains(&"C06") {
                armed_c06.armed.push("C06");
            }
            let saved = std::mem::replace(&mut self.cfg, armed_c06);
            let extra = if check || !out.mapref_reobserved_unchanged.is_empty() {
                self.check_round(&log, out, after.recomputed - before.recomputed, &mut scratch)
            } else {
                vec![]
            };
            self.cfg = saved;
            if check {
                vs.extend(scratch.into_iter().filter(|x| self.cfg.is_armed(x.property)));
            }
            for (k, args) in extra.iter() {
                self.model.adopt_extra_run(out.round, k, args);
            }
            // bookkeeping of the subscription model follows the specification
            for (s, u) in out.notes.iter() {
                let sm = &mut self.model.subs[*s as usize];
                sm.got_any = true;
                if *u == Upd::Invalidated {
                    sm.got_invalidated = true;
                }
                sm.last = Some(u.clone());
            }
            if self.prog.alpha.handler_self_unsub {
                for (s, u) in out.notes.iter() {
                    if matches!(u, Upd::Changed(_)) {
                        self.model.subs[*s as usize].active = false;
                    }
                }
            }
            for s in out.optional_invalidated.iter() {
                let sm = &mut self.model.subs[*s as usize];
                sm.got_any = true;
                sm.got_invalidated = true;
            }
            for slot in out.self_disallowed.iter() {
                self.model.kill_observer(*slot);
            }
            for ev in log.iter() {
                if let Ev::Handler { sub, update } = ev {
                    self.obs_hash = hash64(&(self.obs_hash, sub, update));
                    if let Some((slot, _)) = self.subs.get(*sub as usize) {
                        let slot = *slot as usize;
                        while self.slot_hash.len() <= slot {
                            self.slot_hash.push(0);
                        }
                        self.slot_hash[slot] = hash64(&(self.slot_hash[slot], sub, update));
                    }
                }
            }
            self.model.adopt(&log, out);
            // witnesses
            if !out.bind_runs.is_empty() {
                self.note("bind_closure_ran");
            }
            if !out.invalidated.is_empty() {
                self.note("nodes_invalidated");
            }
            if out.cone_start.difference(&out.cone_end).next().is_some() {
                self.note("cone_shrank_in_round");
            }
            if !out.cutoffs.is_empty() {
                self.note("cutoff_fn_consulted");
            }
            if out.runs.len() > 1 {
                self.note("multi_node_round");
            }
            if !out.notes.is_empty() {
                self.note("notifications_expected");
            }
        } else if check {
            // no user function may run outside stabilise
            if log.iter().any(|e| e.is_node_fn()) && self.cfg.is_armed("C05") {
                vs.push(v("C05", "C05.outside_stabilise", "", format!("user functions ran during {a:?}: {log:?}")));
            }
        }
        self.probe(round.is_some(), check, &mut vs);
        // Writes issued by update handlers take effect on the variable at once but, like any
        // write, reach the graph at the next stabilise: the observers just probed are judged on
        // the assignment that was current when stabilise was called (C07), the model's
        // variables move only now.
        if let (Some(out), Some(var)) = (&round, self.prog.alpha.handler_sets_var) {
            for (_s, u) in out.notes.iter() {
                if let Upd::Init(x) | Upd::Changed(x) = u {
                    self.model.set_var(var, (x.num() + 1).rem_euclid(3));
                }
            }
        }
        // the same for writes issued by observability callbacks (whether a callback ran is read off the log)
        if let (Some(_), Some(var)) = (&round, self.prog.alpha.obs_cb_sets_var) {
            for ev in log.iter() {
                if let Ev::ObsChange { now, .. } = ev {
                    self.model.set_var(var, *now as i32);
                }
            }
        }
        // ... and for writes issued by a node function (`fn_sets_var`): one per logged run of that node, in log order
        if let (Some(_), Some((node, var))) = (&round, self.prog.alpha.fn_sets_var) {
            for ev in log.iter() {
                if let Ev::Run { key: Key::Outer(n), args } = ev {
                    if *n == node {
                        if let Some(x) = args.first() {
                            self.model.set_var(var, (x.num() + 1).rem_euclid(2));
                        }
                    }
                }
            }
        }
        if check {
            if self.cfg.is_armed("C11") {
                for f in self.state.verif_audit() {
                    let rule: String = f.split(':').next().unwrap_or("").to_string();
                    if rule.starts_with('R') {
                        let pat: String = f.chars().filter(|c| !c.is_ascii_digit()).take(60).collect();
                        vs.push(v("C11", "C11.audit", format!("{rule}:{pat}"), f));
                    } else {
                        self.note("audit_diagnostics");
                    }
                }
                let handler_wrote = (self.prog.alpha.handler_sets_var.is_some() && log.iter().any(|e| matches!(e, Ev::Handler { .. })))
                    || (self.prog.alpha.obs_cb_sets_var.is_some() && log.iter().any(|e| matches!(e, Ev::ObsChange { .. })))
                    || self.prog.alpha.fn_sets_var.map_or(false, |(node, _)| log.iter().any(|e| matches!(e, Ev::Run { key: Key::Outer(n), .. } if *n == node)));
                if round.is_some() && !handler_wrote && !self.state.is_stable() {
                    vs.push(v("C11", "C11.not_stable_after_stabilise", "", "is_stable() is false right after a stabilise in which no user function wrote a variable".to_string()));
                }
            }
            if round.is_some() {
                self.explain = format!("log: {log:?}");
                if std::env::var("HX_DEBUG_MODEL").is_ok() {
                    self.explain.push_str(&format!("\n{}\nround: {:?}\n{}", self.model.dump(), round, canonicalise_dump(&self.state.verif_dump())));
                }
            }
        }
        for mch in self.machinery.drain(..) {
            vs.push(v("MACHINERY", "machinery", "model", mch));
        }
        vs
    }

    fn canon(&self) -> Option<String> {
        let mut s = canonicalise_dump(&self.state.verif_dump());
        s.push_str(&canonicalise_dump(&self.model.dump()));
        // harness-side: which current-generation inner nodes are still alive
        let t = self.obs.borrow();
        for (i, h) in t.slots.iter().enumerate() {
            s.push_str(&format!("H{i}:{};", h.len()));
        }
        Some(s)
    }

    fn dead(&self) -> bool {
        self.dead
    }

    fn observation_hash(&self) -> u64 {
        self.obs_hash
    }

    fn take_counters(&mut self) -> Counters {
        std::mem::take(&mut self.counters)
    }

    fn teardown(self) {
        OBS.with(|o| *o.borrow_mut() = None);
        let _ = catch(move || drop(self));
    }

    fn prog_json(p: &Prog) -> Json {
        p.to_json()
    }
    fn prog_from_json(j: &Json) -> Option<Prog> {
        Prog::from_json(j)
    }
    fn action_json(a: &Act) -> Json {
        a.to_json()
    }
    fn action_from_json(j: &Json) -> Option<Act> {
        Act::from_json(j)
    }
    fn explain_last(&self) -> String {
        self.explain.clone()
    }
}
