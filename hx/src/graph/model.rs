//! Reference models of the graph world (DESIGN §4): R1 from-scratch evaluation, R2 the
//! incremental-semantics reference (Appendix A), R3 observers and subscriptions.
//! Shares nothing with the engine: no heights, heaps, parent pointers.

use super::prog::*;
use super::{Ev, ObsErr, Upd};
use crate::val::*;
use std::collections::{BTreeMap, BTreeSet};
use std::rc::Rc;

#[derive(Clone, Debug, PartialEq)]
pub enum Fn1 {
    Plain(F1),
    Captured(Val),
}

impl Fn1 {
    pub fn apply(&self, x: &Val) -> Val {
        match self {
            Fn1::Plain(f) => f.apply(x),
            Fn1::Captured(c) => captured_mix(c, x),
        }
    }
}

#[derive(Clone, Debug, PartialEq)]
pub enum RKind {
    Var,
    Const(Val),
    Map1(Fn1, Key),
    Map2(F2, Key, Key),
    MapN(Vec<Key>),
    MapRef(Key),
    MapWithOld(Key),
    Fold(Vec<Key>),
    DependOn(Key, Key),
    Zip(Key, Key),
    Bind { lhs: Key, even: Rhs, odd: Rhs },
    /// created and dropped at once inside a bind closure
    Dead,
}

impl RKind {
    pub fn inputs(&self) -> Vec<Key> {
        match self {
            RKind::Var | RKind::Const(_) | RKind::Dead => vec![],
            RKind::Map1(_, a) | RKind::MapRef(a) | RKind::MapWithOld(a) => vec![a.clone()],
            RKind::Map2(_, a, b) | RKind::DependOn(a, b) | RKind::Zip(a, b) => vec![a.clone(), b.clone()],
            RKind::MapN(v) | RKind::Fold(v) => v.clone(),
            RKind::Bind { lhs, .. } => vec![lhs.clone()],
        }
    }
    pub fn name(&self) -> &'static str {
        match self {
            RKind::Var => "Var",
            RKind::Const(_) => "Const",
            RKind::Map1(..) => "Map",
            RKind::Map2(..) => "Map2",
            RKind::MapN(..) => "MapN",
            RKind::MapRef(..) => "MapRef",
            RKind::MapWithOld(..) => "MapWithOld",
            RKind::Fold(..) => "Fold",
            RKind::DependOn(..) => "DependOn",
            RKind::Zip(..) => "Zip",
            RKind::Bind { .. } => "Bind",
            RKind::Dead => "Dead",
        }
    }
    /// the node's function is a user closure whose invocations appear in the event log
    pub fn logged(&self) -> bool {
        matches!(
            self,
            RKind::Map1(..) | RKind::Map2(..) | RKind::MapN(..) | RKind::MapWithOld(..) | RKind::Fold(..)
        )
    }
}

pub const NEVER: i32 = -1;

#[derive(Clone, Debug)]
pub struct RNode {
    pub kind: RKind,
    pub cut: Cut,
    pub val: Option<Val>,
    pub ran: i32,
    pub changed: i32,
    pub valid: bool,
    // bind
    pub gen: u16,
    pub closure_ran: i32,
    pub rhs: Option<Key>,
    pub made: Vec<Key>,
    /// the node a `ST` alternative created on its first use (returned, stale, ever after)
    pub first_st: Option<Key>,
    /// map_ref only: the node was outside every observer's cone at the end of some round since
    /// it last ran (it cannot have compared projections for input changes in that period)
    pub absent: bool,
    // var
    pub logical: Val,
    pub written: i32,
    /// created by a bind closure but at top scope (`Rhs::FV(false)`: `IncrState::var` ignores the current scope): the
    /// bind's later runs do not invalidate it
    pub top_scope: bool,
}

impl RNode {
    fn new(kind: RKind, cut: Cut) -> RNode {
        RNode {
            kind,
            cut,
            val: None,
            ran: NEVER,
            changed: NEVER,
            valid: true,
            gen: 0,
            closure_ran: NEVER,
            rhs: None,
            made: vec![],
            first_st: None,
            absent: false,
            logical: Val::I(0),
            written: NEVER,
            top_scope: false,
        }
    }
}

#[derive(Clone, Copy, Debug, PartialEq, Eq)]
pub enum OState {
    Created,
    InUse,
    Dead,
}

#[derive(Clone, Debug)]
pub struct ObsSlot {
    pub key: Key,
    pub state: OState,
    /// public handles (clones) still held by the harness
    pub handles: u8,
    pub pinned: bool,
    /// observer was created while its node was already invalid
    pub born_invalid: bool,
}

#[derive(Clone, Debug)]
pub struct SubM {
    pub slot: u8,
    pub active: bool,
    pub got_any: bool,
    pub got_invalidated: bool,
    /// model time at which it was created (handlers made during the handler phase of round r
    /// carry r+1 and first run in the next round)
    pub created_at: i32,
    /// subscribed while the node was already invalid: zero or one Invalidated accepted
    pub on_invalid: bool,
    /// everything delivered so far (hash only, for the digest / observation trace)
    pub delivered: u64,
    pub last: Option<Upd>,
}

#[derive(Default, Debug, Clone)]
pub struct RoundOut {
    pub round: i32,
    /// (node, arguments) of every user function the reference says must run
    pub runs: Vec<(Key, Vec<Val>)>,
    pub bind_runs: Vec<(Key, u16, Val)>,
    pub cutoffs: Vec<(Key, Val, Val)>,
    pub changed: BTreeSet<Key>,
    pub invalidated: BTreeSet<Key>,
    pub cone_start: BTreeSet<Key>,
    pub cone_end: BTreeSet<Key>,
    /// expected notification per subscription index this round
    pub notes: BTreeMap<u8, Upd>,
    /// subscriptions for which an `Invalidated` is optional this round
    pub optional_invalidated: BTreeSet<u8>,
    /// map_ref nodes re-evaluated after a period outside the cone whose projection did not change
    pub mapref_reobserved_unchanged: BTreeSet<Key>,
    pub live_observers: usize,
    /// observer slots whose own handler disallowed them during this round's handler phase
    pub self_disallowed: Vec<u8>,
}

#[derive(Clone)]
pub struct Model {
    pub prog: Rc<Prog>,
    pub nodes: BTreeMap<Key, RNode>,
    pub now: i32,
    pub created: u8,
    pub handle_alive: Vec<bool>,
    pub obs: Vec<ObsSlot>,
    pub subs: Vec<SubM>,
    /// outer nodes carrying an `Incr::on_update` handler
    pub node_handlers: Vec<u8>,
    // per-round scratch
    evaluated: BTreeSet<Key>,
    settled: BTreeSet<Key>,
}

pub fn parity_even(v: &Val) -> bool {
    v.num().rem_euclid(2) == 0
}

impl Model {
    pub fn new(prog: Rc<Prog>) -> Model {
        let mut m = Model {
            prog: prog.clone(),
            nodes: BTreeMap::new(),
            now: 0,
            created: 0,
            handle_alive: vec![],
            obs: vec![],
            subs: vec![],
            node_handlers: vec![],
            evaluated: BTreeSet::new(),
            settled: BTreeSet::new(),
        };
        for _ in 0..prog.precreated {
            m.create_next();
        }
        for p in prog.pinned.iter() {
            m.observe(Key::Outer(*p), true);
        }
        m
    }

    pub fn create_next(&mut self) {
        let i = self.created as usize;
        let spec = &self.prog.nodes[i];
        let o = |x: &u8| Key::Outer(*x);
        let kind = match &spec.recipe {
            Recipe::Var(_) => RKind::Var,
            Recipe::Const(c) => RKind::Const(Val::I(*c)),
            Recipe::Map(f, a) => RKind::Map1(Fn1::Plain(*f), o(a)),
            Recipe::Map2(f, a, b) => RKind::Map2(*f, o(a), o(b)),
            Recipe::MapN(v) => RKind::MapN(v.iter().map(o).collect()),
            Recipe::MapRef(a) => RKind::MapRef(o(a)),
            Recipe::MapWithOld(a) => RKind::MapWithOld(o(a)),
            Recipe::Fold(v) => RKind::Fold(v.iter().map(o).collect()),
            Recipe::DependOn(a, b) => RKind::DependOn(o(a), o(b)),
            Recipe::Zip(a, b) => RKind::Zip(o(a), o(b)),
            Recipe::Xp(a) => RKind::Map1(Fn1::Plain(F1::Inc), o(a)),
            Recipe::Bind { lhs, even, odd } => RKind::Bind {
                lhs: o(lhs),
                even: even.clone(),
                odd: odd.clone(),
            },
        };
        let mut n = RNode::new(kind, spec.cut);
        if let Recipe::Var(init) = &spec.recipe {
            n.logical = Val::I(*init);
            n.written = self.now;
        }
        self.nodes.insert(Key::Outer(i as u8), n);
        self.handle_alive.push(true);
        self.created += 1;
    }

    pub fn set_var(&mut self, v: u8, d: i32) {
        let now = self.now;
        let n = self.nodes.get_mut(&Key::Outer(v)).unwrap();
        n.logical = Val::I(d);
        n.written = now;
    }

    pub fn observe(&mut self, key: Key, pinned: bool) -> u8 {
        let born_invalid = !self.nodes.get(&key).map_or(false, |n| n.valid);
        self.obs.push(ObsSlot {
            key,
            state: OState::Created,
            handles: 1,
            pinned,
            born_invalid,
        });
        (self.obs.len() - 1) as u8
    }

    pub fn live_slots(&self) -> Vec<u8> {
        self.obs
            .iter()
            .enumerate()
            .filter(|(_, o)| o.state != OState::Dead)
            .map(|(i, _)| i as u8)
            .collect()
    }

    pub fn kill_observer(&mut self, slot: u8) {
        self.obs[slot as usize].state = OState::Dead;
        for s in self.subs.iter_mut() {
            if s.slot == slot {
                s.active = false;
            }
        }
    }

    /// Handlers that disallow their own observer on their first `Changed` (alphabet switch `handler_self_disallow`):
    /// the handlers of one observer run in token order (ascending or descending, hook H2); the first one that is
    /// told `Changed` ends the observer's life, so its siblings later in that order get nothing in this round.
    pub fn apply_self_disallow(&mut self, out: &mut RoundOut, asc: bool) {
        for slot in 0..self.obs.len() as u8 {
            if self.obs[slot as usize].pinned {
                continue;
            }
            let mut subs: Vec<u8> = (0..self.subs.len() as u8).filter(|i| self.subs[*i as usize].slot == slot).collect();
            if !asc {
                subs.reverse();
            }
            let mut triggered = false;
            for i in subs {
                if triggered {
                    out.notes.remove(&i);
                    out.optional_invalidated.remove(&i);
                } else if matches!(out.notes.get(&i), Some(Upd::Changed(_))) {
                    triggered = true;
                }
            }
            if triggered {
                out.self_disallowed.push(slot);
            }
        }
    }

    /// what `try_get_value` on a handle of `slot` must return outside stabilise
    pub fn expected_read(&self, slot: u8) -> Result<Val, ObsErr> {
        let o = &self.obs[slot as usize];
        match o.state {
            OState::Created => Err(ObsErr::NeverStabilised),
            OState::Dead => Err(ObsErr::Disallowed),
            OState::InUse => {
                let n = &self.nodes[&o.key];
                match (&n.val, n.valid) {
                    (Some(v), true) => Ok(v.clone()),
                    _ => Err(ObsErr::ObservingInvalid),
                }
            }
        }
    }

    // ------------------------------------------------------------------ R1

    /// From-scratch value of a node's defining expression on the current variable values.
    /// `None` when the expression is undefined (refers to a stale-returning bind).
    pub fn r1(&self, k: &Key) -> Option<Val> {
        let n = self.nodes.get(k)?;
        Some(match &n.kind {
            RKind::Var => n.logical.clone(),
            RKind::Const(c) => c.clone(),
            RKind::Map1(f, a) => f.apply(&self.r1(a)?),
            RKind::Map2(f, a, b) => f.apply(&self.r1(a)?, &self.r1(b)?),
            RKind::MapN(v) | RKind::Fold(v) => {
                let vals = v.iter().map(|x| self.r1(x)).collect::<Option<Vec<_>>>()?;
                sum(vals.iter())
            }
            RKind::MapRef(a) => self.r1(a)?.fst().clone(),
            RKind::MapWithOld(a) => F1::Par.apply(&self.r1(a)?),
            RKind::DependOn(a, _) => self.r1(a)?,
            RKind::Zip(a, b) => Val::pair(self.r1(a)?, self.r1(b)?),
            RKind::Bind { lhs, even, odd } => {
                let v = self.r1(lhs)?;
                let spec = if parity_even(&v) { even } else { odd };
                self.r1_rhs(k, spec, &v)?
            }
            RKind::Dead => return None,
        })
    }

    fn r1_rhs(&self, b: &Key, spec: &Rhs, captured: &Val) -> Option<Val> {
        let o = |x: &u8| self.r1(&Key::Outer(*x));
        Some(match spec {
            Rhs::E(x) => o(x)?,
            Rhs::F(x) | Rhs::FG(x) => captured_mix(captured, &o(x)?),
            Rhs::FC | Rhs::FV(_) => captured.clone(),
            Rhs::FF(x) => F1::Inc.apply(&captured_mix(captured, &o(x)?)),
            Rhs::NB(l, e, od) => {
                let iv = o(l)?;
                let sub = if parity_even(&iv) { e } else { od };
                // the nested bind's key is only needed for ST below
                self.r1_rhs(b, sub, &iv)?
            }
            Rhs::ST(_) => return None,
        })
    }

    // ------------------------------------------------------------------ R2

    fn inputs_of(&self, k: &Key) -> Vec<Key> {
        let Some(n) = self.nodes.get(k) else { return vec![] };
        if !n.valid {
            return vec![];
        }
        let mut v = n.kind.inputs();
        if let RKind::Bind { .. } = n.kind {
            if let Some(r) = &n.rhs {
                v.push(r.clone());
            }
        }
        v
    }

    pub fn roots(&self) -> Vec<Key> {
        self.obs
            .iter()
            .filter(|o| o.state == OState::InUse)
            .map(|o| o.key.clone())
            .collect()
    }

    pub fn reach(&self, roots: &[Key]) -> BTreeSet<Key> {
        let mut seen = BTreeSet::new();
        let mut stack: Vec<Key> = roots.to_vec();
        while let Some(k) = stack.pop() {
            if !seen.insert(k.clone()) {
                continue;
            }
            for c in self.inputs_of(&k) {
                stack.push(c);
            }
        }
        seen
    }

    /// nodes needed by an observer that is in use right now
    pub fn cone_now(&self) -> BTreeSet<Key> {
        self.reach(&self.roots())
    }

    fn invalidate(&mut self, k: &Key, out: &mut RoundOut) {
        let Some(n) = self.nodes.get_mut(k) else { return };
        if !n.valid {
            return;
        }
        n.valid = false;
        n.val = None;
        out.invalidated.insert(k.clone());
        let made = std::mem::take(&mut n.made);
        for m in made {
            self.invalidate(&m, out);
        }
    }

    fn run(&mut self, k: &Key, new: Val, flag: Option<bool>, out: &mut RoundOut) {
        let now = self.now;
        // depend_on: the engine keeps the input's change stamp (DESIGN §6 C06)
        let dep_a_changed = match &self.nodes[k].kind {
            RKind::DependOn(a, _) => Some(self.nodes[a].changed),
            _ => None,
        };
        let n = self.nodes.get_mut(k).unwrap();
        n.ran = now;
        let changed = match (&n.val, flag, dep_a_changed) {
            (None, None, _) => true,
            (_, Some(f), _) => f,
            (Some(_), None, Some(a_changed)) => a_changed != n.changed,
            (Some(old), None, None) => {
                if n.cut.is_logged() {
                    out.cutoffs.push((k.clone(), old.clone(), new.clone()));
                }
                !n.cut.suppresses(old, &new)
            }
        };
        if changed {
            n.changed = now;
            out.changed.insert(k.clone());
        }
        n.val = Some(new);
    }

    /// builds the right-hand side a bind closure returns for `captured`; mirrors real.rs
    fn instantiate(&mut self, b: &Key, gen: u16, spec: &Rhs, captured: &Val) -> (Key, Vec<Key>) {
        let mut made = vec![];
        let mut mk = |this: &mut Model, k: u8, kind: RKind| -> Key {
            let key = Key::inner(b, gen, k);
            this.nodes.insert(key.clone(), RNode::new(kind, Cut::Default));
            made.push(key.clone());
            key
        };
        let o = |x: &u8| Key::Outer(*x);
        let rhs = match spec {
            Rhs::E(x) => o(x),
            Rhs::F(x) => mk(self, 0, RKind::Map1(Fn1::Captured(captured.clone()), o(x))),
            Rhs::FC | Rhs::FV(true) => mk(self, 0, RKind::Const(captured.clone())),
            Rhs::FV(false) => {
                let k = mk(self, 0, RKind::Const(captured.clone()));
                self.nodes.get_mut(&k).unwrap().top_scope = true;
                k
            }
            Rhs::FG(x) => {
                mk(self, 0, RKind::Dead);
                mk(self, 1, RKind::Map1(Fn1::Captured(captured.clone()), o(x)))
            }
            Rhs::FF(x) => {
                let k0 = mk(self, 0, RKind::Map1(Fn1::Captured(captured.clone()), o(x)));
                mk(self, 1, RKind::Map1(Fn1::Plain(F1::Inc), k0))
            }
            Rhs::NB(l, e, od) => mk(
                self,
                0,
                RKind::Bind {
                    lhs: o(l),
                    even: (**e).clone(),
                    odd: (**od).clone(),
                },
            ),
            Rhs::ST(x) => match self.nodes[b].first_st.clone() {
                None => {
                    let k = mk(self, 0, RKind::Map1(Fn1::Captured(captured.clone()), o(x)));
                    self.nodes.get_mut(b).unwrap().first_st = Some(k.clone());
                    k
                }
                Some(k) => k,
            },
        };
        let made: Vec<Key> = made.into_iter().filter(|k| !self.nodes[k].top_scope).collect();
        (rhs, made)
    }

    fn settle(&mut self, b: &Key, out: &mut RoundOut) {
        if !self.settled.insert(b.clone()) {
            return;
        }
        if !self.nodes.get(b).map_or(false, |n| n.valid) {
            return;
        }
        if let Some((pb, g)) = b.scope() {
            let pb = pb.clone();
            self.settle(&pb, out);
            if self.nodes[&pb].gen != g || !self.nodes[&pb].valid {
                self.invalidate(b, out);
                return;
            }
        }
        let RKind::Bind { lhs, even, odd } = self.nodes[b].kind.clone() else {
            return;
        };
        if !self.eval(&lhs, out) {
            self.invalidate(b, out);
            return;
        }
        let lhs_changed = self.nodes[&lhs].changed;
        let n = &self.nodes[b];
        if n.closure_ran == NEVER || lhs_changed > n.closure_ran {
            let made = std::mem::take(&mut self.nodes.get_mut(b).unwrap().made);
            for m in made {
                self.invalidate(&m, out);
            }
            let now = self.now;
            let captured = self.nodes[&lhs].val.clone().unwrap();
            let n = self.nodes.get_mut(b).unwrap();
            n.gen += 1;
            n.closure_ran = now;
            let gen = n.gen;
            out.bind_runs.push((b.clone(), gen, captured.clone()));
            let spec = if parity_even(&captured) { even } else { odd };
            let (rhs, made) = self.instantiate(b, gen, &spec, &captured);
            let n = self.nodes.get_mut(b).unwrap();
            n.rhs = Some(rhs);
            n.made = made;
        }
    }

    fn eval(&mut self, k: &Key, out: &mut RoundOut) -> bool {
        if self.evaluated.contains(k) {
            return self.nodes.get(k).map_or(false, |n| n.valid);
        }
        self.evaluated.insert(k.clone());
        if !self.nodes.contains_key(k) {
            return false;
        }
        if let (Some((b, g)), false) = (k.scope(), self.nodes[k].top_scope) {
            let b = b.clone();
            self.settle(&b, out);
            if self.nodes[&b].gen != g || !self.nodes[&b].valid {
                self.invalidate(k, out);
            }
        }
        if !self.nodes[k].valid {
            return false;
        }
        let kind = self.nodes[k].kind.clone();
        match &kind {
            RKind::Dead => false,
            RKind::Var => {
                let n = &self.nodes[k];
                if n.ran == NEVER || n.written > n.ran {
                    let v = n.logical.clone();
                    self.run(k, v, None, out);
                }
                true
            }
            RKind::Const(c) => {
                if self.nodes[k].ran == NEVER {
                    self.run(k, c.clone(), None, out);
                }
                true
            }
            RKind::Bind { .. } => {
                self.settle(k, out);
                if !self.nodes[k].valid {
                    return false;
                }
                let rhs = self.nodes[k].rhs.clone().unwrap();
                if !self.eval(&rhs, out) {
                    self.invalidate(k, out);
                    return false;
                }
                let n = &self.nodes[k];
                let r = &self.nodes[&rhs];
                if n.ran == NEVER || n.closure_ran > n.ran || r.changed > n.ran || (n.closure_ran == self.now && n.ran < self.now) {
                    let v = r.val.clone().unwrap();
                    self.run(k, v, None, out);
                }
                true
            }
            _ => {
                let ins = kind.inputs();
                let mut ok = true;
                for c in ins.iter() {
                    if !self.eval(c, out) {
                        ok = false;
                    }
                }
                if !ok {
                    self.invalidate(k, out);
                    return false;
                }
                let n = &self.nodes[k];
                let stale = n.ran == NEVER || ins.iter().any(|c| self.nodes[c].changed > n.ran);
                let was_absent = n.absent;
                if matches!(kind, RKind::MapRef(_)) {
                    self.nodes.get_mut(k).unwrap().absent = false;
                }
                let n = &self.nodes[k];
                if stale {
                    let args: Vec<Val> = ins.iter().map(|c| self.nodes[c].val.clone().unwrap()).collect();
                    let (new, flag) = Self::apply_kind(&kind, &args, n.val.as_ref());
                    if was_absent && matches!(kind, RKind::MapRef(_)) {
                        if let Some(old) = &n.val {
                            if n.cut.suppresses(old, &new) {
                                out.mapref_reobserved_unchanged.insert(k.clone());
                            }
                        }
                    }
                    if kind.logged() {
                        let mut logged_args = args.clone();
                        if let RKind::MapWithOld(_) = kind {
                            // (old, x): old is encoded as the previous value or absent
                            logged_args = match &n.val {
                                Some(o) => vec![o.clone(), args[0].clone()],
                                None => vec![args[0].clone()],
                            };
                        }
                        out.runs.push((k.clone(), logged_args));
                    }
                    self.run(k, new, flag, out);
                }
                true
            }
        }
    }

    /// the value (and for map_with_old the change flag) a map-like kind computes from `args`
    pub fn apply_kind(kind: &RKind, args: &[Val], old: Option<&Val>) -> (Val, Option<bool>) {
        match kind {
            RKind::Map1(f, _) => (f.apply(&args[0]), None),
            RKind::Map2(f, _, _) => (f.apply(&args[0], &args[1]), None),
            RKind::MapN(_) | RKind::Fold(_) => (sum(args.iter()), None),
            RKind::MapRef(_) => (args[0].fst().clone(), None),
            RKind::MapWithOld(_) => {
                let new = F1::Par.apply(&args[0]);
                let flag = old != Some(&new);
                (new, Some(flag))
            }
            RKind::DependOn(_, _) => (args[0].clone(), None),
            RKind::Zip(_, _) => (Val::pair(args[0].clone(), args[1].clone()), None),
            _ => unreachable!(),
        }
    }

    /// One stabilise: observer transitions, evaluation of the cone, expected notifications.
    pub fn round(&mut self) -> RoundOut {
        let mut out = RoundOut {
            round: self.now,
            ..Default::default()
        };
        for o in self.obs.iter_mut() {
            if o.state == OState::Created {
                o.state = OState::InUse;
            }
        }
        let roots = self.roots();
        out.live_observers = roots.len();
        out.cone_start = self.reach(&roots);
        self.evaluated.clear();
        self.settled.clear();
        // Top-level variables and constants sit below every other node: the ones that are needed when
        // the round starts are brought up to date before any bind can switch away from them, whether
        // or not they are still needed when the round ends.
        let lowest: Vec<Key> = out
            .cone_start
            .iter()
            .filter(|k| matches!(k, Key::Outer(_)) && matches!(self.nodes[*k].kind, RKind::Var | RKind::Const(_)))
            .cloned()
            .collect();
        for k in lowest.iter() {
            self.eval(k, &mut out);
        }
        for r in roots.iter() {
            self.eval(r, &mut out);
        }
        out.cone_end = self.reach(&roots);
        for (k, n) in self.nodes.iter_mut() {
            if matches!(n.kind, RKind::MapRef(_)) && !out.cone_end.contains(k) {
                n.absent = true;
            }
        }
        // expected notifications
        let now = self.now;
        for (i, s) in self.subs.iter_mut().enumerate() {
            if !s.active || self.obs[s.slot as usize].state != OState::InUse {
                continue;
            }
            if s.created_at > now {
                continue;
            }
            let n = &self.nodes[&self.obs[s.slot as usize].key];
            if !n.valid {
                if !s.got_invalidated {
                    if s.on_invalid && !s.got_any {
                        out.optional_invalidated.insert(i as u8);
                    } else {
                        out.notes.insert(i as u8, Upd::Invalidated);
                    }
                }
            } else if let Some(v) = &n.val {
                if !s.got_any {
                    out.notes.insert(i as u8, Upd::Init(v.clone()));
                } else if n.changed == now {
                    out.notes.insert(i as u8, Upd::Changed(v.clone()));
                }
            }
        }
        self.now += 1;
        out
    }

    /// Nodes that were needed only at the start of the round may or may not have run
    /// (DESIGN §8). Follow the implementation's choice for them, from the event log.
    pub fn adopt(&mut self, log: &[Ev], out: &RoundOut) {
        let round = out.round;
        let save_now = self.now;
        self.now = round;
        let mut scratch = RoundOut::default();
        for ev in log {
            match ev {
                Ev::Run { key, args } if !out.cone_end.contains(key) => {
                    let Some(n) = self.nodes.get(key) else { continue };
                    if !n.valid || n.ran == round {
                        continue;
                    }
                    let kind = n.kind.clone();
                    if !kind.logged() || matches!(kind, RKind::Fold(_)) {
                        continue;
                    }
                    let real_args: Vec<Val> = match kind {
                        RKind::MapWithOld(_) => vec![args.last().cloned().unwrap_or_default()],
                        _ => args.clone(),
                    };
                    if real_args.len() != kind.inputs().len() {
                        continue;
                    }
                    let (new, flag) = Self::apply_kind(&kind, &real_args, n.val.as_ref());
                    self.adopt_inputs(&kind.inputs(), &real_args, round);
                    self.run(key, new, flag, &mut scratch);
                }
                Ev::FoldDone { key, args } if !out.cone_end.contains(key) => {
                    let Some(n) = self.nodes.get(key) else { continue };
                    if !n.valid || n.ran == round {
                        continue;
                    }
                    let new = sum(args.iter());
                    let ins = n.kind.inputs();
                    if ins.len() == args.len() {
                        self.adopt_inputs(&ins, args, round);
                    }
                    self.run(key, new, None, &mut scratch);
                }
                Ev::BindRun { key, arg, .. } if !out.cone_end.contains(key) => {
                    let Some(n) = self.nodes.get(key) else { continue };
                    if !n.valid || n.closure_ran == round {
                        continue;
                    }
                    let RKind::Bind { even, odd, lhs } = n.kind.clone() else { continue };
                    self.adopt_inputs(&[lhs], std::slice::from_ref(arg), round);
                    let made = std::mem::take(&mut self.nodes.get_mut(key).unwrap().made);
                    for m in made {
                        self.invalidate(&m, &mut scratch);
                    }
                    let n = self.nodes.get_mut(key).unwrap();
                    n.gen += 1;
                    n.closure_ran = round;
                    let gen = n.gen;
                    let spec = if parity_even(arg) { even } else { odd };
                    let (rhs, made) = self.instantiate(key, gen, &spec, arg);
                    let n = self.nodes.get_mut(key).unwrap();
                    n.rhs = Some(rhs);
                    n.made = made;
                }
                _ => {}
            }
        }
        self.now = save_now;
    }

    /// A node that was needed only at the start of the round ran with `args`: inputs whose value the
    /// reference did not bring up to date (they dropped out of the cone before it got to them) were
    /// evidently recomputed by the engine in this round; follow it.
    fn adopt_inputs(&mut self, inputs: &[Key], args: &[Val], round: i32) {
        for (k, a) in inputs.iter().zip(args.iter()) {
            if let Some(n) = self.nodes.get_mut(k) {
                if n.valid && n.val.as_ref() != Some(a) {
                    n.val = Some(a.clone());
                    n.ran = round;
                    n.changed = round;
                }
            }
        }
    }

    /// A run the reference did not expect but which a listed known finding explains: follow the
    /// implementation so that later rounds are judged from the state the engine is really in.
    pub fn adopt_extra_run(&mut self, round: i32, key: &Key, args: &[Val]) {
        let save = self.now;
        self.now = round;
        let mut scratch = RoundOut::default();
        if let Some(n) = self.nodes.get(key) {
            let kind = n.kind.clone();
            let real_args: Vec<Val> = match kind {
                RKind::MapWithOld(_) => vec![args.last().cloned().unwrap_or_default()],
                _ => args.to_vec(),
            };
            if n.valid && real_args.len() == kind.inputs().len() && !matches!(kind, RKind::Bind { .. } | RKind::Var | RKind::Const(_) | RKind::Dead) {
                let (new, flag) = Self::apply_kind(&kind, &real_args, n.val.as_ref());
                self.run(key, new, flag, &mut scratch);
            }
        }
        self.now = save;
    }
    /// the conservative choice of the engine for a re-observed map_ref: it counts as changed
    pub fn adopt_mapref_changed(&mut self, round: i32, key: &Key) {
        if let Some(n) = self.nodes.get_mut(key) {
            n.changed = round;
        }
    }

    /// key with generations made relative to the creating bind's current generation
    pub fn kfmt(&self, k: &Key) -> String {
        match k {
            Key::Outer(i) => format!("n{i}"),
            Key::Inner(b, g, i) => {
                let cur = self.nodes.get(&**b).map_or(0, |n| n.gen);
                format!("{}.{}.k{}", self.kfmt(b), if *g == cur { "cur" } else { "old" }, i)
            }
        }
    }

    /// Text of the reference state for the digest; rounds are ranked by the caller's
    /// canonicaliser (`@n`). Generation counters are abstracted to {0,1,2+} and keys to
    /// current/old generation: the engine never sees them.
    pub fn dump(&self) -> String {
        use std::fmt::Write;
        let mut s = String::new();
        let _ = write!(s, "MODEL now=@{} created={} handles={:?}\n", self.now, self.created, self.handle_alive);
        for (k, n) in self.nodes.iter() {
            // dead generations of inner nodes that nothing can reach any more are dropped
            if !n.valid && !self.obs.iter().any(|o| &o.key == k && o.state != OState::Dead) {
                if let Key::Inner(..) = k {
                    continue;
                }
            }
            let _ = write!(
                s,
                "{} {} v={:?} ran=@{} chg=@{} valid={} gen={} cr=@{} rhs={} lg={:?} wr=@{} abs={}\n",
                self.kfmt(k),
                n.kind.name(),
                n.val,
                n.ran,
                n.changed,
                n.valid as u8,
                if n.first_st.is_some() { 3 } else { n.gen.min(2) },
                n.closure_ran,
                n.rhs.as_ref().map_or("-".to_string(), |r| self.kfmt(r)),
                if matches!(n.kind, RKind::Var) { Some(&n.logical) } else { None },
                n.written,
                n.absent as u8
            );
        }
        for (i, o) in self.obs.iter().enumerate() {
            if o.state == OState::Dead && !self.subs.iter().any(|s| s.slot as usize == i) {
                let _ = write!(s, "obs{} dead\n", i);
                continue;
            }
            let _ = write!(s, "obs{} {} {:?} h={} pin={}\n", i, self.kfmt(&o.key), o.state, o.handles, o.pinned as u8);
        }
        for (i, x) in self.subs.iter().enumerate() {
            let _ = write!(
                s,
                "sub{} slot={} act={} any={} inv={} cr=@{} last={:?}\n",
                i, x.slot, x.active as u8, x.got_any as u8, x.got_invalidated as u8, x.created_at, x.last
            );
        }
        let _ = write!(s, "node_handlers={:?}\n", self.node_handlers);
        s
    }
}
