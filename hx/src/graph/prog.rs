//! Scenario language of the graph world (DESIGN §3): programs are lists of node recipes over
//! earlier nodes, plus the alphabet switches a family wants.

use crate::val::*;
use serde_json::{json, Value as Json};
use std::fmt;
use std::rc::Rc;

/// Identity of a node, shared by the real interpreter and the reference model.
#[derive(Clone, PartialEq, Eq, Hash, PartialOrd, Ord)]
pub enum Key {
    /// i-th recipe of the program
    Outer(u8),
    /// k-th node created by generation `gen` of the bind `0`
    Inner(Rc<Key>, u16, u8),
}

impl fmt::Debug for Key {
    fn fmt(&self, f: &mut fmt::Formatter<'_>) -> fmt::Result {
        match self {
            Key::Outer(i) => write!(f, "n{i}"),
            Key::Inner(b, g, k) => write!(f, "{b:?}.g{g}.k{k}"),
        }
    }
}

impl Key {
    pub fn inner(bind: &Key, gen: u16, k: u8) -> Key {
        Key::Inner(Rc::new(bind.clone()), gen, k)
    }
    pub fn scope(&self) -> Option<(&Key, u16)> {
        match self {
            Key::Outer(_) => None,
            Key::Inner(b, g, _) => Some((b, *g)),
        }
    }
    pub fn depth(&self) -> usize {
        match self {
            Key::Outer(_) => 0,
            Key::Inner(b, _, _) => 1 + b.depth(),
        }
    }
}

/// What a bind closure returns for a given parity of its input.
#[derive(Clone, Debug, PartialEq, Eq, Hash)]
pub enum Rhs {
    /// an existing outer node
    E(u8),
    /// a fresh map over outer node x applying `captured_mix(lhs value, .)`
    F(u8),
    /// a fresh constant of the captured value
    FC,
    /// a fresh *variable* holding the captured value, created inside the closure (`state.var`, or with `true`
    /// `state.var_current_scope`); the `Var` handle is dropped before the closure returns, the watch node is the result.
    /// Behaves like `FC`; exercises variable creation / teardown in the middle of a stabilise.
    FV(bool),
    /// creates and drops a throw-away node, then like F
    FG(u8),
    /// fresh two-node chain: inc(captured_mix(lhs value, x))
    FF(u8),
    /// a nested bind on outer node `l` with its own alternatives
    NB(u8, Box<Rhs>, Box<Rhs>),
    /// first run: like F(x); later runs: return the node created by the *first* run (stale)
    ST(u8),
}

impl Rhs {
    pub fn to_json(&self) -> Json {
        match self {
            Rhs::E(x) => json!({"E": x}),
            Rhs::F(x) => json!({"F": x}),
            Rhs::FC => json!("FC"),
            Rhs::FV(c) => json!({"FV": c}),
            Rhs::FG(x) => json!({"FG": x}),
            Rhs::FF(x) => json!({"FF": x}),
            Rhs::NB(l, e, o) => json!({"NB": [l, e.to_json(), o.to_json()]}),
            Rhs::ST(x) => json!({"ST": x}),
        }
    }
    pub fn from_json(j: &Json) -> Option<Rhs> {
        if j.as_str() == Some("FC") {
            return Some(Rhs::FC);
        }
        let o = j.as_object()?;
        let (k, v) = o.iter().next()?;
        Some(match k.as_str() {
            "E" => Rhs::E(v.as_u64()? as u8),
            "F" => Rhs::F(v.as_u64()? as u8),
            "FG" => Rhs::FG(v.as_u64()? as u8),
            "FV" => Rhs::FV(v.as_bool()?),
            "FF" => Rhs::FF(v.as_u64()? as u8),
            "ST" => Rhs::ST(v.as_u64()? as u8),
            "NB" => {
                let a = v.as_array()?;
                Rhs::NB(
                    a.first()?.as_u64()? as u8,
                    Box::new(Rhs::from_json(a.get(1)?)?),
                    Box::new(Rhs::from_json(a.get(2)?)?),
                )
            }
            _ => return None,
        })
    }
    /// outer nodes this alternative refers to
    pub fn refs(&self, out: &mut Vec<u8>) {
        match self {
            Rhs::E(x) | Rhs::F(x) | Rhs::FG(x) | Rhs::FF(x) | Rhs::ST(x) => out.push(*x),
            Rhs::FC | Rhs::FV(_) => {}
            Rhs::NB(l, e, o) => {
                out.push(*l);
                e.refs(out);
                o.refs(out);
            }
        }
    }
    pub fn has_stale(&self) -> bool {
        match self {
            Rhs::ST(_) => true,
            Rhs::NB(_, e, o) => e.has_stale() || o.has_stale(),
            _ => false,
        }
    }
}

#[derive(Clone, Debug, PartialEq, Eq, Hash)]
pub enum Recipe {
    Var(i32),
    Const(i32),
    Map(F1, u8),
    Map2(F2, u8, u8),
    /// map3..map6: sum of 3..6 inputs
    MapN(Vec<u8>),
    MapRef(u8),
    MapWithOld(u8),
    Fold(Vec<u8>),
    DependOn(u8, u8),
    Zip(u8, u8),
    Bind { lhs: u8, even: Rhs, odd: Rhs },
    /// an `expert::Node` with one static dependency on `a` (added right after creation), an on-change edge callback
    /// that keeps the child's value in a slot, a recompute function `inc(child value)` and an observability
    /// callback; all three closures are instrumented user code (fault points, observer reads). Behaves like
    /// `Map(inc, a)` for values and re-invocation.
    Xp(u8),
}

impl Recipe {
    pub fn inputs(&self) -> Vec<u8> {
        match self {
            Recipe::Var(_) | Recipe::Const(_) => vec![],
            Recipe::Map(_, a) | Recipe::MapRef(a) | Recipe::MapWithOld(a) | Recipe::Xp(a) => vec![*a],
            Recipe::Map2(_, a, b) | Recipe::DependOn(a, b) | Recipe::Zip(a, b) => vec![*a, *b],
            Recipe::MapN(v) | Recipe::Fold(v) => v.clone(),
            Recipe::Bind { lhs, even, odd } => {
                let mut v = vec![*lhs];
                even.refs(&mut v);
                odd.refs(&mut v);
                v
            }
        }
    }
    pub fn kind_name(&self) -> &'static str {
        match self {
            Recipe::Var(_) => "Var",
            Recipe::Const(_) => "Const",
            Recipe::Map(..) => "Map",
            Recipe::Map2(..) => "Map2",
            Recipe::MapN(..) => "MapN",
            Recipe::MapRef(..) => "MapRef",
            Recipe::MapWithOld(..) => "MapWithOld",
            Recipe::Fold(..) => "Fold",
            Recipe::DependOn(..) => "DependOn",
            Recipe::Zip(..) => "Zip",
            Recipe::Bind { .. } => "Bind",
            Recipe::Xp(..) => "Xp",
        }
    }
    pub fn to_json(&self) -> Json {
        match self {
            Recipe::Var(i) => json!({"var": i}),
            Recipe::Const(i) => json!({"const": i}),
            Recipe::Map(f, a) => json!({"map": [f.name(), a]}),
            Recipe::Map2(f, a, b) => json!({"map2": [f.name(), a, b]}),
            Recipe::MapN(v) => json!({"mapn": v}),
            Recipe::MapRef(a) => json!({"map_ref": a}),
            Recipe::MapWithOld(a) => json!({"map_with_old": a}),
            Recipe::Fold(v) => json!({"fold": v}),
            Recipe::DependOn(a, b) => json!({"depend_on": [a, b]}),
            Recipe::Zip(a, b) => json!({"zip": [a, b]}),
            Recipe::Xp(a) => json!({"xp": a}),
            Recipe::Bind { lhs, even, odd } => {
                json!({"bind": {"lhs": lhs, "even": even.to_json(), "odd": odd.to_json()}})
            }
        }
    }
    pub fn from_json(j: &Json) -> Option<Recipe> {
        let o = j.as_object()?;
        let (k, v) = o.iter().find(|(k, _)| k.as_str() != "cut")?;
        let u = |x: &Json| x.as_u64().map(|x| x as u8);
        let us = |x: &Json| -> Option<Vec<u8>> { x.as_array()?.iter().map(|e| e.as_u64().map(|x| x as u8)).collect() };
        Some(match k.as_str() {
            "var" => Recipe::Var(v.as_i64()? as i32),
            "const" => Recipe::Const(v.as_i64()? as i32),
            "map" => {
                let a = v.as_array()?;
                Recipe::Map(F1::from_name(a.first()?.as_str()?)?, u(a.get(1)?)?)
            }
            "map2" => {
                let a = v.as_array()?;
                Recipe::Map2(F2::from_name(a.first()?.as_str()?)?, u(a.get(1)?)?, u(a.get(2)?)?)
            }
            "mapn" => Recipe::MapN(us(v)?),
            "map_ref" => Recipe::MapRef(u(v)?),
            "map_with_old" => Recipe::MapWithOld(u(v)?),
            "xp" => Recipe::Xp(u(v)?),
            "fold" => Recipe::Fold(us(v)?),
            "depend_on" => {
                let a = us(v)?;
                Recipe::DependOn(*a.first()?, *a.get(1)?)
            }
            "zip" => {
                let a = us(v)?;
                Recipe::Zip(*a.first()?, *a.get(1)?)
            }
            "bind" => Recipe::Bind {
                lhs: u(v.get("lhs")?)?,
                even: Rhs::from_json(v.get("even")?)?,
                odd: Rhs::from_json(v.get("odd")?)?,
            },
            _ => return None,
        })
    }
}

#[derive(Clone, Debug, PartialEq, Eq, Hash)]
pub struct NodeSpec {
    pub recipe: Recipe,
    pub cut: Cut,
}

impl NodeSpec {
    pub fn new(recipe: Recipe) -> Self {
        NodeSpec {
            recipe,
            cut: Cut::Default,
        }
    }
    pub fn cut(mut self, c: Cut) -> Self {
        self.cut = c;
        self
    }
}

/// Which actions a family offers (the alphabet), and extra closure behaviour.
#[derive(Clone, Debug, PartialEq, Eq, Hash)]
pub struct Alphabet {
    /// values a `Set` may write
    pub values: Vec<i32>,
    pub observe: bool,
    pub drop_obs: bool,
    pub disallow: bool,
    pub drop_handle: bool,
    pub clone_obs: bool,
    pub subscribe: bool,
    pub unsubscribe: bool,
    pub state_unsubscribe: bool,
    pub on_update: bool,
    /// observe nodes created inside pinned binds
    pub observe_inner: bool,
    pub max_observers: u8,
    pub max_subs: u8,
    /// node functions and handlers read every observer handle (C07)
    pub closures_read_observers: bool,
    /// only these nodes may be observed (empty = all created nodes)
    pub observable: Vec<u8>,
    /// subscription handlers unsubscribe themselves (through a WeakState and their own token)
    /// when they receive their first `Changed`
    pub handler_self_unsub: bool,
    /// subscription handlers write `(delivered value + 1) mod 3` to this variable on every
    /// Initialised / Changed they receive (families keep max_subs = 1: no ordering question)
    pub handler_sets_var: Option<u8>,
    /// subscription handlers call `disallow_future_use` on their *own observer* when they receive their first
    /// `Changed`: sibling subscriptions of that observer that have not run yet in this round must not run any more
    pub handler_self_disallow: bool,
    /// observability callbacks of `Xp` nodes write `1` (became observed) / `0` (no longer observed) to this
    /// variable; like every write made during a stabilise it must reach the graph only at the next one
    pub obs_cb_sets_var: Option<u8>,
    /// `(node, var)`: the function of the outer `Map` node `node` also writes `(argument + 1) mod 2` to variable `var`
    /// (a node function may own a `Var` handle). The write is deferred to the end of the stabilise; after a panic later
    /// in the same stabilise it stays pending for ever (after seed C13-f).
    pub fn_sets_var: Option<(u8, u8)>,
}

impl Default for Alphabet {
    fn default() -> Self {
        Alphabet {
            values: vec![0, 1, 2],
            observe: true,
            drop_obs: true,
            disallow: true,
            drop_handle: false,
            clone_obs: false,
            subscribe: false,
            unsubscribe: false,
            state_unsubscribe: false,
            on_update: false,
            observe_inner: false,
            max_observers: 2,
            max_subs: 0,
            closures_read_observers: false,
            observable: vec![],
            handler_self_unsub: false,
            handler_sets_var: None,
            handler_self_disallow: false,
            obs_cb_sets_var: None,
            fn_sets_var: None,
        }
    }
}

impl Alphabet {
    pub fn to_json(&self) -> Json {
        json!({
            "values": self.values, "observe": self.observe, "drop_obs": self.drop_obs, "disallow": self.disallow,
            "drop_handle": self.drop_handle, "clone_obs": self.clone_obs, "subscribe": self.subscribe,
            "unsubscribe": self.unsubscribe, "state_unsubscribe": self.state_unsubscribe, "on_update": self.on_update,
            "observe_inner": self.observe_inner, "max_observers": self.max_observers, "max_subs": self.max_subs,
            "closures_read_observers": self.closures_read_observers, "observable": self.observable,
            "handler_self_unsub": self.handler_self_unsub, "handler_sets_var": self.handler_sets_var, "obs_cb_sets_var": self.obs_cb_sets_var, "handler_self_disallow": self.handler_self_disallow,
            "fn_sets_var": self.fn_sets_var.map(|(n, v)| vec![n, v]),
        })
    }
    pub fn from_json(j: &Json) -> Option<Alphabet> {
        let b = |k: &str| j.get(k).and_then(|v| v.as_bool()).unwrap_or(false);
        Some(Alphabet {
            values: j.get("values")?.as_array()?.iter().filter_map(|v| v.as_i64().map(|x| x as i32)).collect(),
            observe: b("observe"),
            drop_obs: b("drop_obs"),
            disallow: b("disallow"),
            drop_handle: b("drop_handle"),
            clone_obs: b("clone_obs"),
            subscribe: b("subscribe"),
            unsubscribe: b("unsubscribe"),
            state_unsubscribe: b("state_unsubscribe"),
            on_update: b("on_update"),
            observe_inner: b("observe_inner"),
            max_observers: j.get("max_observers")?.as_u64()? as u8,
            max_subs: j.get("max_subs")?.as_u64()? as u8,
            closures_read_observers: b("closures_read_observers"),
            handler_self_unsub: b("handler_self_unsub"),
            handler_self_disallow: b("handler_self_disallow"),
            handler_sets_var: j.get("handler_sets_var").and_then(|v| v.as_u64()).map(|x| x as u8),
            obs_cb_sets_var: j.get("obs_cb_sets_var").and_then(|v| v.as_u64()).map(|x| x as u8),
            fn_sets_var: j.get("fn_sets_var").and_then(|v| v.as_array()).and_then(|a| Some((a.first()?.as_u64()? as u8, a.get(1)?.as_u64()? as u8))),
            observable: j
                .get("observable")
                .and_then(|v| v.as_array())
                .map(|a| a.iter().filter_map(|v| v.as_u64().map(|x| x as u8)).collect())
                .unwrap_or_default(),
        })
    }
}

#[derive(Clone, Debug, PartialEq, Eq, Hash)]
pub struct Prog {
    pub nodes: Vec<NodeSpec>,
    /// how many recipes exist from the start; the rest appear through `CreateNext`
    pub precreated: u8,
    /// nodes observed from the start by an observer that is never dropped
    pub pinned: Vec<u8>,
    /// nodes that already have an ordinary (droppable) observer each, all stabilised once, when the history
    /// starts: saves the 1 + len actions every history would otherwise spend getting there
    pub start_observed: Vec<u8>,
    /// nodes that carry an `Incr::on_update` handler from the start (installed before `start_observed` is applied)
    pub start_on_update: Vec<u8>,
    pub alpha: Alphabet,
}

impl Prog {
    pub fn new(nodes: Vec<NodeSpec>) -> Prog {
        let n = nodes.len() as u8;
        Prog {
            nodes,
            precreated: n,
            pinned: vec![],
            start_observed: vec![],
            start_on_update: vec![],
            alpha: Alphabet::default(),
        }
    }
    pub fn vars(&self) -> Vec<u8> {
        self.nodes
            .iter()
            .enumerate()
            .filter(|(_, n)| matches!(n.recipe, Recipe::Var(_)))
            .map(|(i, _)| i as u8)
            .collect()
    }
    /// "node functions are pure and cutoffs only suppress equal values": the C01 proviso
    pub fn is_pure_class(&self) -> bool {
        self.nodes.iter().all(|n| n.cut.is_equality_like())
    }
    /// programs on which the reference can state exactly which functions run (C06): no
    /// depend_on (timestamp cutoff), no map_ref directly over map_with_old (DESIGN §6 C06)
    pub fn exact_ran(&self) -> bool {
        self.nodes.iter().all(|n| match &n.recipe {
            Recipe::DependOn(..) | Recipe::Xp(..) => false,
            Recipe::MapRef(a) => !matches!(self.nodes[*a as usize].recipe, Recipe::MapWithOld(_)),
            _ => true,
        })
    }
    /// programs that are not `exact_ran` only because a map_ref sits directly over a map_with_old node: the engine may
    /// re-invoke *more* than the reference there (accepted upstream), but "changes are never lost" still binds, so
    /// the `missed` half of C06 is judged (added after seed C06-d)
    pub fn missed_only(&self) -> bool {
        !self.exact_ran() && self.nodes.iter().all(|n| !matches!(n.recipe, Recipe::DependOn(..) | Recipe::Xp(..)))
    }
    pub fn has_stale_rhs(&self) -> bool {
        self.nodes.iter().any(|n| match &n.recipe {
            Recipe::Bind { even, odd, .. } => even.has_stale() || odd.has_stale(),
            _ => false,
        })
    }
    pub fn to_json(&self) -> Json {
        let nodes: Vec<Json> = self
            .nodes
            .iter()
            .map(|n| {
                let mut j = n.recipe.to_json();
                if n.cut != Cut::Default {
                    j.as_object_mut().unwrap().insert("cut".into(), json!(n.cut.name()));
                }
                j
            })
            .collect();
        json!({"nodes": nodes, "precreated": self.precreated, "pinned": self.pinned, "start_observed": self.start_observed, "start_on_update": self.start_on_update, "alphabet": self.alpha.to_json()})
    }
    pub fn from_json(j: &Json) -> Option<Prog> {
        let nodes = j
            .get("nodes")?
            .as_array()?
            .iter()
            .map(|n| {
                let recipe = Recipe::from_json(n)?;
                let cut = match n.get("cut") {
                    Some(c) => Cut::from_name(c.as_str()?)?,
                    None => Cut::Default,
                };
                Some(NodeSpec { recipe, cut })
            })
            .collect::<Option<Vec<_>>>()?;
        Some(Prog {
            nodes,
            precreated: j.get("precreated")?.as_u64()? as u8,
            pinned: j
                .get("pinned")?
                .as_array()?
                .iter()
                .filter_map(|v| v.as_u64().map(|x| x as u8))
                .collect(),
            start_observed: j
                .get("start_observed")
                .and_then(|v| v.as_array())
                .map(|a| a.iter().filter_map(|v| v.as_u64().map(|x| x as u8)).collect())
                .unwrap_or_default(),
            start_on_update: j
                .get("start_on_update")
                .and_then(|v| v.as_array())
                .map(|a| a.iter().filter_map(|v| v.as_u64().map(|x| x as u8)).collect())
                .unwrap_or_default(),
            alpha: Alphabet::from_json(j.get("alphabet")?)?,
        })
    }
}

#[derive(Clone, Debug, PartialEq, Eq, Hash)]
pub enum Act {
    Set(u8, i32),
    Stabilise,
    Observe(u8),
    /// observe the k-th node made by the current generation of pinned bind b
    ObserveInner(u8, u8),
    /// observe the k2-th node made by the current generation of the nested bind that is the
    /// k-th node made by the current generation of pinned bind b
    ObserveInner2(u8, u8, u8),
    CloneObs(u8),
    /// drop one public handle of observer slot s
    DropObs(u8),
    Disallow(u8),
    Subscribe(u8),
    /// (observer slot used for the call, subscription index)
    Unsubscribe(u8, u8),
    StateUnsubscribe(u8),
    /// drop the harness's `Incr`/`Var` handle of outer node n
    DropHandle(u8),
    CreateNext,
    /// node-level `Incr::on_update` on outer node n
    OnUpdate(u8),
}

impl Act {
    pub fn to_json(&self) -> Json {
        match self {
            Act::Set(v, d) => json!({"set": [v, d]}),
            Act::Stabilise => json!("stabilise"),
            Act::Observe(n) => json!({"observe": n}),
            Act::ObserveInner(b, k) => json!({"observe_inner": [b, k]}),
            Act::ObserveInner2(b, k, k2) => json!({"observe_inner2": [b, k, k2]}),
            Act::CloneObs(s) => json!({"clone_obs": s}),
            Act::DropObs(s) => json!({"drop_obs": s}),
            Act::Disallow(s) => json!({"disallow": s}),
            Act::Subscribe(s) => json!({"subscribe": s}),
            Act::Unsubscribe(s, t) => json!({"unsubscribe": [s, t]}),
            Act::StateUnsubscribe(t) => json!({"state_unsubscribe": t}),
            Act::DropHandle(n) => json!({"drop_handle": n}),
            Act::CreateNext => json!("create_next"),
            Act::OnUpdate(n) => json!({"on_update": n}),
        }
    }
    pub fn from_json(j: &Json) -> Option<Act> {
        if let Some(s) = j.as_str() {
            return match s {
                "stabilise" => Some(Act::Stabilise),
                "create_next" => Some(Act::CreateNext),
                _ => None,
            };
        }
        let o = j.as_object()?;
        let (k, v) = o.iter().next()?;
        let u = |x: &Json| x.as_u64().map(|x| x as u8);
        let pair = |x: &Json| -> Option<(i64, i64)> {
            let a = x.as_array()?;
            Some((a.first()?.as_i64()?, a.get(1)?.as_i64()?))
        };
        Some(match k.as_str() {
            "set" => {
                let (a, b) = pair(v)?;
                Act::Set(a as u8, b as i32)
            }
            "observe" => Act::Observe(u(v)?),
            "observe_inner" => {
                let (a, b) = pair(v)?;
                Act::ObserveInner(a as u8, b as u8)
            }
            "observe_inner2" => {
                let a = v.as_array()?;
                Act::ObserveInner2(a.first()?.as_u64()? as u8, a.get(1)?.as_u64()? as u8, a.get(2)?.as_u64()? as u8)
            }
            "clone_obs" => Act::CloneObs(u(v)?),
            "drop_obs" => Act::DropObs(u(v)?),
            "disallow" => Act::Disallow(u(v)?),
            "subscribe" => Act::Subscribe(u(v)?),
            "unsubscribe" => {
                let (a, b) = pair(v)?;
                Act::Unsubscribe(a as u8, b as u8)
            }
            "state_unsubscribe" => Act::StateUnsubscribe(u(v)?),
            "drop_handle" => Act::DropHandle(u(v)?),
            "on_update" => Act::OnUpdate(u(v)?),
            _ => return None,
        })
    }
}
