//! E3 — fault enumeration for C13: for every explored history ending in `stabilise`, the run
//! is repeated once per user-closure invocation of that stabilise with a panic injected
//! exactly there; after `catch_unwind` the poisoned-state oracle is applied.

use super::model::OState;
use super::prog::*;
use super::world::*;
use super::ObsErr;
use crate::core::*;
use crate::explore::*;
use crate::val::Val;
use serde_json::json;

fn viol(rule: &'static str, sig: impl Into<String>, detail: impl Into<String>) -> Violation {
    Violation::new("C13", rule, sig, detail)
}

fn read_all(w: &GraphWorld) -> Vec<(u8, Result<Val, ObsErr>)> {
    let t = w.obs.borrow();
    let mut out = vec![];
    for (s, handles) in t.slots.iter().enumerate() {
        for h in handles {
            out.push((s as u8, h.try_get_value().map_err(|e| ObsErr::from_real(&e))));
        }
    }
    out
}

/// One faulted execution. `order_b` selects the second drop order.
/// Returns violations and whether the fault actually fired.
fn faulted_run(prog: &Prog, cfg: &Cfg, hist: &[Act], fault_offset: u64, order_b: bool) -> (Vec<Violation>, bool, Option<u8>) {
    let mut vs = vec![];
    let mut w = GraphWorld::new(prog, cfg);
    let (prefix, last) = hist.split_at(hist.len() - 1);
    for a in prefix {
        let _ = w.step(a, false);
    }
    if w.dead() {
        w.teardown();
        return (vs, false, None);
    }
    // the faulting stabilise, executed raw so that the world object stays usable
    w.prepare_thread_locals();
    let _ = take_log();
    clear_fault_fired();
    let base = invocations();
    set_fault_at(Some(base + fault_offset));
    debug_assert!(matches!(last[0], Act::Stabilise));
    // the reference's view of the round that was interrupted: end-of-round values
    let _round = w.model.round();
    let state = w.state.clone();
    let r = catch(|| state.stabilise());
    set_fault_at(None);
    let fired_in = fault_fired_in();
    let log1 = take_log();
    let Err(p) = r else {
        // the invocation count differs from the counting run: nothing to judge
        w.teardown();
        return (vs, false, None);
    };
    if !p.message.contains("injected fault") {
        vs.push(viol("C13.other_panic", p.short_location(), format!("stabilise panicked with something other than the injected fault: {} at {}", p.first_line(), p.short_location())));
        w.teardown();
        return (vs, true, fired_in);
    }
    let handler_phase = fired_in == Some(1);
    let phase = if handler_phase { "handler" } else { "node_fn" };
    let _ = log1;

    // (2) reads: fail, or (handler phase only) the fully propagated values
    let judge_reads = |w: &GraphWorld, when: &str, vs: &mut Vec<Violation>| {
        let reads = catch(|| read_all(w));
        let reads = match reads {
            Ok(r) => r,
            Err(p) => {
                vs.push(viol("C13.read_panics", format!("{phase}:{}", p.short_location()), format!("reading an observer {when} panicked: {}", p.first_line())));
                return;
            }
        };
        for (s, got) in reads {
            if let Ok(v) = &got {
                let exp = w.model.expected_read(s);
                let in_use = w.model.obs[s as usize].state == OState::InUse;
                let ok = handler_phase && in_use && exp == Ok(v.clone());
                if !ok {
                    vs.push(viol(
                        "C13.partial_value",
                        phase,
                        format!("observer slot {s} returned Ok({v:?}) {when}, after a panic escaped stabilise from a {phase} closure; fully propagated value would be {exp:?}"),
                    ));
                }
            }
        }
    };
    judge_reads(&w, "right after the panic", &mut vs);

    // (3) further API use: writes, a new observer, reads again
    for var in w.prog.vars() {
        if let Some(Some(va)) = w.vars.get(var as usize) {
            let va = va.clone();
            let _ = catch(move || va.set(Val::I(7)));
        }
    }
    judge_reads(&w, "after further writes", &mut vs);
    let first_node = w.nodes.iter().flatten().next().cloned();
    let mut extra_obs = None;
    if let Some(n) = first_node {
        extra_obs = catch(move || n.observe()).ok();
    }
    if let Some(o) = &extra_obs {
        if let Ok(Ok(v)) = catch(|| o.try_get_value()) {
            vs.push(viol("C13.partial_value", format!("{phase}:new_observer"), format!("an observer created after the panic returned Ok({v:?})")));
        }
    }

    // (4) a further stabilise refuses to run and invokes no user function
    reset_handler_flags();
    let before = invocations();
    let state2 = w.state.clone();
    let r2 = catch(move || state2.stabilise());
    let after = invocations();
    let log2 = take_log();
    if r2.is_ok() {
        vs.push(viol("C13.stabilise_ran", phase, "a further stabilise returned normally after a panic had escaped the previous one".to_string()));
    }
    if after != before || log2.iter().any(|e| e.is_user_fn()) {
        vs.push(viol("C13.stabilise_ran", format!("{phase}:user_fn"), format!("a further stabilise invoked {} user closures after a panic had escaped the previous one", after - before)));
    }
    judge_reads(&w, "after a further stabilise attempt", &mut vs);

    // (5) drop everything, in one of two orders; a second panic is a violation, an abort is
    // caught by the supervisor through the marker
    let GraphWorld { state, nodes, vars, obs, subs, stash, model, .. } = w;
    drop(model);
    drop(subs);
    let r = if !order_b {
        catch(move || {
            drop(extra_obs);
            drop(obs);
            drop(stash);
            drop(vars);
            drop(nodes);
            drop(state);
        })
    } else {
        catch(move || {
            drop(state);
            drop(nodes);
            drop(vars);
            drop(stash);
            drop(extra_obs);
            drop(obs);
        })
    };
    if let Err(p) = r {
        vs.push(viol(
            "C13.drop_panics",
            format!("{phase}:{}:{}", if order_b { "state_first" } else { "observers_first" }, p.short_location()),
            format!("dropping the handles and the state after the panic panicked again at {}: {}", p.short_location(), p.first_line()),
        ));
    }
    (vs, true, fired_in)
}

/// Explore `prog` like the ordinary BFS and branch a fault enumeration off every explored
/// `stabilise`.
pub fn run(prog: &Prog, cfg: &Cfg, opts: &Opts, ids: (u32, u32), marker: &Marker, stats: &mut Stats) {
    let prog_json = prog.to_json();
    let mut hook = |hist: &[Act], choices: &[u16], stats: &mut Stats| {
        if !matches!(hist.last(), Some(Act::Stabilise)) {
            return;
        }
        // counting run
        let n = {
            let mut w = GraphWorld::new(prog, cfg);
            for a in &hist[..hist.len() - 1] {
                let _ = w.step(a, false);
            }
            if w.dead() {
                w.teardown();
                return;
            }
            let base = invocations();
            let _ = w.step(&Act::Stabilise, false);
            let n = invocations() - base;
            let dead = w.dead();
            w.teardown();
            if dead {
                return;
            }
            n
        };
        for i in 0..n {
            for order_b in [false, true] {
                marker.mark(ids.0, ids.1, &choices[..choices.len() - 1], *choices.last().unwrap());
                let (vs, fired, fired_in) = faulted_run(prog, cfg, hist, i, order_b);
                stats.histories += 1;
                stats.replay_steps += hist.len() as u64;
                if fired {
                    *stats.counters.entry("faults_injected").or_insert(0) += 1;
                    if !order_b {
                        *stats.counters.entry("fault_points").or_insert(0) += 1;
                    }
                    match fired_in {
                        Some(1) => *stats.counters.entry("faults_in_handlers").or_insert(0) += 1,
                        _ => *stats.counters.entry("faults_in_node_fns_binds_cutoffs").or_insert(0) += 1,
                    }
                } else {
                    *stats.counters.entry("fault_did_not_fire").or_insert(0) += 1;
                }
                for v in vs {
                    match stats.found.get_mut(&v.sig) {
                        Some(f) => f.occurrences += 1,
                        None => {
                            let mut h: Vec<serde_json::Value> = hist.iter().map(|a| a.to_json()).collect();
                            h.push(json!({"fault_at_invocation_of_last_stabilise": i, "drop_order": if order_b { "state_first" } else { "observers_first" }}));
                            stats.found.insert(
                                v.sig.clone(),
                                Found {
                                    viol: v,
                                    prog: prog_json.clone(),
                                    history: h,
                                    explain: String::new(),
                                    occurrences: 1,
                                },
                            );
                        }
                    }
                }
            }
        }
    };
    bfs_hook::<GraphWorld, _>(prog, cfg, opts, ids, None, marker, stats, &mut hook);
    if stats.samples.len() < 4 {
        stats.samples.push(json!({"program": prog_json, "note": "every explored history ending in stabilise was re-run once per user-closure invocation of that stabilise, with a panic injected there, in two drop orders"}));
    }
}

/// Replay of a recorded C13 violation: the history's last element names the fault.
pub fn replay(cfg: &Cfg, prog: &serde_json::Value, history: &[serde_json::Value]) -> Result<(Vec<(usize, Violation)>, Vec<String>, u64), String> {
    let p = Prog::from_json(prog).ok_or("cannot parse program")?;
    let (fault, acts) = history.split_last().ok_or("empty history")?;
    let i = fault.get("fault_at_invocation_of_last_stabilise").and_then(|v| v.as_u64()).ok_or("no fault spec")?;
    let order_b = fault.get("drop_order").and_then(|v| v.as_str()) == Some("state_first");
    let h: Vec<Act> = acts.iter().map(|a| Act::from_json(a).ok_or("bad action")).collect::<Result<_, _>>()?;
    let (vs, fired, fired_in) = faulted_run(&p, cfg, &h, i, order_b);
    let mut explain = vec![String::new(); history.len()];
    explain[history.len() - 1] = format!("fault fired: {fired} (in {:?})", fired_in);
    Ok((vs.into_iter().map(|v| (history.len() - 1, v)).collect(), explain, 0))
}
