//! Differential oracle for the last clause of C10: "none of these calls ever affects another
//! observer of the same node". No expected value is written down: for every explored history
//! and every observer Y in it, the history is executed a second time with all *other*
//! observers attached to a twin of the node (an identical recipe over the same inputs) instead
//! of the node itself. Everything observed through Y (its reads after every action and the
//! notifications of its subscriptions) must be identical in both runs.

use super::prog::*;
use super::world::GraphWorld;
use crate::core::*;
use crate::explore::*;
use serde_json::json;

/// the history with every observer other than `y` moved from node 1 to its twin, node 2
fn counterfactual(hist: &[Act], y: usize) -> Vec<Act> {
    let mut slot = 0usize;
    hist.iter()
        .map(|a| match a {
            Act::Observe(n) => {
                let s = slot;
                slot += 1;
                if s != y && *n == 1 {
                    Act::Observe(2)
                } else {
                    a.clone()
                }
            }
            other => other.clone(),
        })
        .collect()
}

fn slots_in(hist: &[Act]) -> usize {
    hist.iter().filter(|a| matches!(a, Act::Observe(_))).count()
}

fn projection(prog: &Prog, cfg: &Cfg, hist: &[Act], y: usize) -> Option<u64> {
    let mut w = GraphWorld::new(prog, cfg);
    for a in hist {
        let _ = w.step(a, false);
        if w.dead() {
            w.teardown();
            return None;
        }
    }
    let h = w.slot_hash.get(y).copied().unwrap_or(0);
    w.teardown();
    Some(h)
}

fn judge(prog: &Prog, cfg: &Cfg, hist: &[Act], y: usize) -> Option<Violation> {
    let cf = counterfactual(hist, y);
    if cf == hist {
        return None;
    }
    let a = projection(prog, cfg, hist, y)?;
    let b = projection(prog, cfg, &cf, y)?;
    if a != b {
        Some(Violation::new(
            "C10",
            "C10.other_observer_affected",
            "",
            format!("what observer slot {y} reads and is notified of differs between this history and the same history with the other observers attached to a twin of the node: calls on other observers of the same node affected it"),
        ))
    } else {
        None
    }
}

pub fn run(prog: &Prog, cfg: &Cfg, opts: &Opts, ids: (u32, u32), marker: &Marker, stats: &mut Stats) {
    let prog_json = prog.to_json();
    let mut hook = |hist: &[Act], _choices: &[u16], stats: &mut Stats| {
        for y in 0..slots_in(hist) {
            *stats.counters.entry("differential_pairs").or_insert(0) += 1;
            stats.replay_steps += 2 * hist.len() as u64;
            if let Some(v) = judge(prog, cfg, hist, y) {
                match stats.found.get_mut(&v.sig) {
                    Some(f) => f.occurrences += 1,
                    None => {
                        let mut h: Vec<serde_json::Value> = hist.iter().map(|a| a.to_json()).collect();
                        h.push(json!({"differential_for_slot": y}));
                        stats.found.insert(
                            v.sig.clone(),
                            Found {
                                viol: v,
                                prog: prog_json.clone(),
                                history: h,
                                explain: String::new(),
                                occurrences: 1,
                            },
                        );
                    }
                }
            }
        }
    };
    bfs_hook::<GraphWorld, _>(prog, cfg, opts, ids, None, marker, stats, &mut hook);
}

pub fn replay(cfg: &Cfg, prog: &serde_json::Value, history: &[serde_json::Value]) -> Result<(Vec<(usize, Violation)>, Vec<String>, u64), String> {
    let p = Prog::from_json(prog).ok_or("cannot parse program")?;
    let (last, acts) = history.split_last().ok_or("empty history")?;
    let y = last.get("differential_for_slot").and_then(|v| v.as_u64()).ok_or("no slot")? as usize;
    let h: Vec<Act> = acts.iter().map(|a| Act::from_json(a).ok_or("bad action")).collect::<Result<_, _>>()?;
    let mut explain = vec![String::new(); history.len()];
    let cf = counterfactual(&h, y);
    explain[history.len() - 1] = format!("counterfactual history: {:?}", cf);
    let vs = judge(&p, cfg, &h, y).into_iter().map(|v| (history.len() - 1, v)).collect();
    Ok((vs, explain, 0))
}
