//! The BFS world of C15 / C17: one operator on one map type, driven by
//! {Stabilise, ToggleObserver, SetMap(side, any map over K keys)} in lock-step with R5.

use super::domain::*;
use super::rig::{self, Call, Rig};
use crate::core::*;
use serde_json::{json, Value as Json};
use std::collections::{BTreeMap, BTreeSet};
use std::rc::Rc;

#[derive(Clone, Debug, PartialEq, Eq)]
pub struct Prog {
    pub op: Op,
    pub mt: Mt,
    /// new input values are produced by editing a clone of the variable's current value
    /// (structure sharing with the operator's stored old input) instead of from scratch
    pub shared: bool,
    /// observe through a downstream identity `map` node
    pub via: bool,
    /// number of keys (values per key: 2)
    pub k: u8,
    /// round-structured alphabet (E1, run unpruned): one action = [toggle observer]; set every
    /// input; stabilise
    pub rounds: bool,
    /// the input variable(s) get `Cutoff::Never`: an equal-value write still makes the operator
    /// run, on an input equal to its stored old input
    pub input_never: bool,
    /// a permanent observer directly on the input variable(s): the variable nodes follow the
    /// writes while the operator is unobserved (A -> B -> A, then re-attach: the operator runs
    /// on an input equal to its stored one)
    pub pinned_input: bool,
}

impl Prog {
    pub fn to_json(&self) -> Json {
        json!({"op": self.op.name(), "mt": self.mt.name(), "shared": self.shared, "via": self.via, "k": self.k, "rounds": self.rounds,
               "input_never": self.input_never, "pinned_input": self.pinned_input})
    }
    pub fn from_json(j: &Json) -> Option<Prog> {
        Some(Prog {
            op: Op::parse(j["op"].as_str()?)?,
            mt: Mt::parse(j["mt"].as_str()?)?,
            shared: j["shared"].as_bool()?,
            via: j["via"].as_bool()?,
            k: j["k"].as_u64()? as u8,
            rounds: j["rounds"].as_bool().unwrap_or(false),
            // older replay files have no such fields
            input_never: j["input_never"].as_bool().unwrap_or(false),
            pinned_input: j["pinned_input"].as_bool().unwrap_or(false),
        })
    }
    /// operator name used in cause signatures. The generic operators share one implementation
    /// for all map types; merge has one per map type.
    fn sig_op(&self) -> String {
        let mut s = self.op.name();
        if self.op == Op::Merge {
            s.push('-');
            s.push_str(self.mt.name());
        }
        if self.via {
            s.push_str("+via");
        }
        s
    }
}

#[derive(Clone, Debug, PartialEq, Eq)]
pub enum Act {
    Stabilise,
    /// observe the output if it is not observed, else drop the observer
    Toggle,
    /// set input variable `side` to map number `idx` of `all_maps(k, 2)`
    Set(u8, u16),
    /// one whole round (programs with `rounds`): toggle the observer if `.0`, set input 0 to
    /// map `.1` (and input 1 to map `.2` for merge), stabilise
    Round(bool, u16, u16),
}

#[derive(Clone, Copy, Debug, PartialEq, Eq, Hash)]
enum Obs {
    None,
    /// created since the last stabilise
    New,
    /// was present in the last stabilise
    Live,
}

pub struct MapsWorld {
    prog: Prog,
    cfg: Cfg,
    rig: Option<Rig>,
    maps: Rc<Vec<Bt>>,
    // ---- model (R5 + what the operator has processed)
    /// current content of each input variable
    cur: Vec<u16>,
    /// the input(s) as of the last round in which the operator was needed (= its stored old
    /// input if the engine is right); None = the operator has never run
    processed: Option<Vec<u16>>,
    obs: Obs,
    /// an observer was created and dropped again since the last stabilise (each such pair leaves
    /// one dead entry in the engine's new-observer queue until the next stabilise; allowing it
    /// only once per inter-stabilise period keeps the state space finite)
    dropped_new: bool,
    /// what the observer showed after the last stabilise it took part in
    last_read: Option<Out>,
    /// the operator's last run was on an input equal to its previously processed one (only
    /// reachable with `input_never` / `pinned_input`). Part of the digest: such a run touches the
    /// operator's hidden closure state without any visible effect.
    equal_run: bool,
    // ---- harness
    dead: bool,
    obs_hash: u64,
    counters: Counters,
    explain: String,
}

thread_local! {
    static MAPS: std::cell::RefCell<BTreeMap<u8, Rc<Vec<Bt>>>> = std::cell::RefCell::new(BTreeMap::new());
}

fn maps_for(k: u8) -> Rc<Vec<Bt>> {
    MAPS.with(|m| m.borrow_mut().entry(k).or_insert_with(|| Rc::new(all_maps(k as usize, 2))).clone())
}

fn viol(property: &'static str, rule: &'static str, sig: String, detail: String) -> Violation {
    Violation::new(property, rule, sig, detail)
}

/// Judge the call log of one round in which the operator may have run (C17).
/// `processed`: previously processed inputs (None: first run). `reobserved`: the observer taking
/// part in this round was attached after the previous stabilise, i.e. the operator may have been
/// unneeded in between. Returns (violations, used_reinit_slack).
pub fn judge_calls(sig_op: &str, calls: &[Call], processed: Option<&[&Bt]>, cur: &[&Bt], reobserved: bool) -> (Vec<Violation>, bool) {
    let mut vs = vec![];
    let mut slack = false;
    let cur_keys: BTreeSet<i32> = cur.iter().flat_map(|m| m.keys().cloned()).collect();
    // keys whose presence or value differs between the previous and the current input(s)
    let changed: BTreeSet<i32> = match processed {
        // initialisation: every key of the input may be processed once
        None => cur_keys.clone(),
        Some(p) => p.iter().zip(cur.iter()).flat_map(|(o, n)| diff_keys(o, n)).collect(),
    };
    let mut seen: BTreeMap<(i32, &'static str), u32> = BTreeMap::new();
    for c in calls {
        let role = if c.role.starts_with("merge.") { "merge" } else { c.role };
        *seen.entry((c.key, role)).or_insert(0) += 1;
        if c.role == "initial" {
            // whole-map initial fold: legitimate in an initialisation round only
            if processed.is_some() {
                if reobserved {
                    slack = true;
                } else {
                    vs.push(viol("C17", "C17.only_changed_keys", format!("{sig_op}:initial:not-an-initialisation"), format!("the whole-map `initial` fold ran in a round that is not an initialisation: {c:?}")));
                }
            }
            continue;
        }
        if changed.contains(&c.key) {
            continue;
        }
        // SLACK (property text: "(re)initialising an operator may process every key once"):
        // in the first round after a re-observation the operator may start over and touch every
        // key of the current input once. The current engine does not (it diffs against its
        // stored old input); the counter `slack_reinit_used` tells if this is ever taken.
        if reobserved && cur_keys.contains(&c.key) {
            slack = true;
            continue;
        }
        let class = if cur_keys.contains(&c.key) { "unchanged-key" } else { "absent-unchanged-key" };
        vs.push(viol(
            "C17",
            "C17.only_changed_keys",
            format!("{sig_op}:{role}:{class}"),
            format!("{c:?} but key {} does not differ between the previously processed input {processed:?} and the current input {cur:?} (changed keys: {changed:?})", c.key),
        ));
    }
    for ((key, role), n) in seen {
        if n > 1 {
            vs.push(viol("C17", "C17.once_per_key", format!("{sig_op}:{role}"), format!("role {role} invoked {n} times for key {key} in one round; calls: {calls:?}")));
        }
    }
    (vs, slack)
}

fn entries_json(i: u16) -> Json {
    let mut entries = serde_json::Map::new();
    let mut ix = i as usize;
    let mut key = 0;
    while ix > 0 {
        if ix % 3 != 0 {
            entries.insert(key.to_string(), json!(enc(key, (ix % 3) as i32)));
        }
        ix /= 3;
        key += 1;
    }
    Json::Object(entries)
}

/// Kind of mismatch between two outputs, for cause signatures.
pub fn mismatch_class(got: &Out, want: &Out) -> &'static str {
    fn maps(g: &Bt, w: &Bt) -> &'static str {
        if w.keys().any(|k| !g.contains_key(k)) {
            "missing-key"
        } else if g.keys().any(|k| !w.contains_key(k)) {
            "stale-key"
        } else {
            "wrong-value"
        }
    }
    match (got, want) {
        (Out::Map(g), Out::Map(w)) => maps(g, w),
        (Out::Num(_), Out::Num(_)) => "wrong-value",
        (Out::Pair(g1, g2), Out::Pair(w1, w2)) => {
            if g1 != w1 {
                maps(g1, w1)
            } else {
                maps(g2, w2)
            }
        }
        _ => "wrong-shape",
    }
}

impl MapsWorld {
    fn note(&mut self, k: &'static str) {
        *self.counters.entry(k).or_insert(0) += 1;
    }
    fn cur_maps(&self) -> Vec<&Bt> {
        self.cur.iter().map(|i| &self.maps[*i as usize]).collect()
    }
    /// property to blame for a panic: the first armed one of this world
    fn panic_property(&self) -> (&'static str, &'static str) {
        if self.cfg.is_armed("C15") {
            ("C15", "C15.panic")
        } else {
            ("C17", "C17.panic")
        }
    }
    /// one elementary action
    fn step_one(&mut self, a: &Act, check: bool) -> Vec<Violation> {
        let mut vs = vec![];
        self.explain.clear();
        let Some(rig) = self.rig.as_mut() else {
            self.dead = true;
            return vs;
        };
        let _ = rig.take_log();
        let before = rig.state.stats().recomputed;
        // Did the operator node itself run in this stabilise? Needed (a) while it is unobserved
        // (it must not; if it does the model follows it) and (b) when the input equals the
        // previously processed one (a run then leaves no other trace). Read off the node's
        // recomputation stamp in the engine dump before and after.
        // Only programs with `input_never` / `pinned_input` pay for the two dumps: without those
        // flags nothing at all is recomputed while the output is unobserved (so `recomputed > 0`
        // tells), and an equal input never reaches the operator.
        let flagged = self.prog.input_never || self.prog.pinned_input;
        let need_stamp = flagged && *a == Act::Stabilise && (self.obs == Obs::None || self.processed.as_ref() == Some(&self.cur));
        let stamp_before = if need_stamp { rig.op_rec() } else { None };
        let maps = self.maps.clone();
        let res = catch(|| {
            match a {
                Act::Stabilise => rig.state.stabilise(),
                Act::Toggle => {
                    if rig.has_observer() {
                        rig.unobserve()
                    } else {
                        rig.observe()
                    }
                }
                Act::Set(side, i) => rig.set(*side as usize, &maps[*i as usize]),
                Act::Round(..) => unreachable!("rounds are split into elementary actions"),
            }
            rig.read()
        });
        let calls = rig.take_log();
        let read = match res {
            Ok(r) => r,
            Err(p) => {
                self.dead = true;
                self.explain = format!("PANIC at {}: {}", p.short_location(), p.first_line());
                let kind = match a {
                    Act::Stabilise => "Stabilise",
                    Act::Toggle => "Toggle",
                    Act::Set(..) | Act::Round(..) => "Set",
                };
                let (prop, rule) = self.panic_property();
                vs.push(viol(prop, rule, format!("{}:{}@{}", self.prog.sig_op(), kind, p.short_location()), format!("{a:?} panicked at {}: {}", p.short_location(), p.first_line())));
                return vs;
            }
        };
        let recomputed = rig.state.stats().recomputed - before;
        let op_ran = need_stamp && rig.op_rec() != stamp_before;
        self.obs_hash = hash64(&(self.obs_hash, format!("{a:?}"), &read, &calls));
        let sig_op = self.prog.sig_op();

        match a {
            Act::Set(side, i) => {
                self.cur[*side as usize] = *i;
            }
            Act::Toggle => {
                if self.obs == Obs::New {
                    self.dropped_new = true;
                }
                self.obs = if self.obs == Obs::None { Obs::New } else { Obs::None };
                if self.obs == Obs::None {
                    self.last_read = None;
                }
            }
            Act::Stabilise | Act::Round(..) => {}
        }

        if *a != Act::Stabilise {
            if !calls.is_empty() {
                // not judged: C17 bounds the calls made *in a stabilise*
                self.note("calls_outside_stabilise");
            }
            // a live observer keeps showing the value of the last stabilise until the next one
            if check && self.obs == Obs::Live && self.cfg.is_armed("C15") {
                let got = read.clone().and_then(|r| r.ok());
                if got != self.last_read {
                    let kind = if matches!(a, Act::Set(..)) { "Set" } else { "Toggle" };
                    vs.push(viol("C15", "C15.read_between", format!("{sig_op}:{kind}"), format!("observer showed {:?} after the last stabilise and {read:?} after {a:?} without a stabilise in between", self.last_read)));
                }
            }
            self.explain = format!("calls: {calls:?} read: {read:?}");
            return vs;
        }

        // ---- Stabilise
        self.dropped_new = false;
        let observed = self.obs != Obs::None;
        // While nobody observes the output the operator is not needed and does not run. Should
        // the engine run it anyway (its recomputation stamp moved -- or, in programs where nothing
        // else can be recomputed then, anything was recomputed -- or a user function ran), follow
        // it: its stored old input is then the current one.
        let ran_unobserved = !observed && (if need_stamp { op_ran } else { recomputed > 0 } || !calls.is_empty());
        if ran_unobserved {
            self.note("ran_while_unobserved");
        }
        if observed || ran_unobserved {
            let reobserved = self.obs == Obs::New || ran_unobserved;
            let cur_ix = self.cur.clone();
            let prev_ix = self.processed.clone();
            let cur = self.cur_maps();
            let prev: Option<Vec<&Bt>> = prev_ix.as_ref().map(|p| p.iter().map(|i| &self.maps[*i as usize]).collect());
            let (cvs, slack) = judge_calls(&sig_op, &calls, prev.as_deref(), &cur, reobserved);
            let equal_input = prev_ix.as_ref() == Some(&cur_ix);
            let phase = match (&prev, reobserved) {
                (None, _) => "init",
                (Some(_), true) => "after-gap",
                (Some(_), false) => "step",
            };
            let want = expected(self.prog.op, &cur);
            let nonempty_diff = prev.as_ref().map_or(false, |p| p.iter().zip(cur.iter()).any(|(o, n)| o != n));
            let emptied = prev.as_ref().map_or(false, |p| p.iter().zip(cur.iter()).any(|(o, n)| !o.is_empty() && n.is_empty()));
            if check && self.cfg.is_armed("C17") {
                vs.extend(cvs);
            }
            if observed {
                match &read {
                    Some(Ok(got)) if *got == want => {}
                    Some(Ok(got)) => {
                        if check && self.cfg.is_armed("C15") {
                            vs.push(viol(
                                "C15",
                                "C15.value",
                                format!("{sig_op}:{phase}:{}", mismatch_class(got, &want)),
                                format!("observed {got:?}, the plain function of the current input {cur:?} is {want:?} (previously processed input {prev:?}, {phase})"),
                            ));
                        }
                    }
                    other => {
                        if check && self.cfg.is_armed("C15") {
                            vs.push(viol("C15", "C15.value", format!("{sig_op}:{phase}:unreadable"), format!("observer read {other:?} right after a stabilise, expected {want:?}")));
                        }
                    }
                }
                self.last_read = read.clone().and_then(|r| r.ok());
                self.obs = Obs::Live;
            }
            // witnesses
            self.note("rounds_operator_needed");
            match phase {
                "init" => self.note("rounds_init"),
                "after-gap" if nonempty_diff => self.note("rounds_diff_after_gap"),
                "step" if nonempty_diff => self.note("rounds_diff"),
                _ => {}
            }
            if emptied {
                self.note("rounds_emptying");
            }
            if slack {
                self.note("slack_reinit_used");
            }
            for c in calls.iter() {
                match c.role {
                    "update" => self.note("calls_update"),
                    "initial" => self.note("calls_initial"),
                    "remove" => self.note("calls_remove"),
                    _ => self.note("calls_other"),
                }
            }
            // `processed` = the input of the last round the operator ran in. A run on an equal
            // input leaves it unchanged by value, but is remembered: the diff of that round is
            // empty (no call allowed, judged above) and the next round must again touch only the
            // keys that really differ.
            if !equal_input {
                self.equal_run = false;
            } else if op_ran {
                self.equal_run = true;
                self.note("rounds_equal_input_run");
            }
            self.processed = Some(cur_ix);
        }
        if check {
            self.explain = format!("calls: {calls:?} read: {read:?} recomputed: {recomputed} operator_ran: {}", if need_stamp { op_ran.to_string() } else { "?".into() });
        }
        vs
    }


    fn canon_text(&self) -> Option<String> {
        // The operators keep their old input inside a closure where the dump cannot see it;
        // the model's `processed` stands in for it (they agree unless C15/C17 already failed).
        // Old outputs are node values and are printed by the dump.
        let rig = self.rig.as_ref()?;
        let mut s = format!("cur={:?} processed={:?} obs={:?}/{} last={:?} has_obs={} equal_run={}\n", self.cur, self.processed, self.obs, self.dropped_new, self.last_read, rig.has_observer(), self.equal_run);
        s.push_str(&canonicalise_dump(&rig.state.verif_dump()));
        Some(s)
    }
}

impl World for MapsWorld {
    type Prog = Prog;
    type Action = Act;

    fn new(prog: &Prog, cfg: &Cfg) -> Self {
        let maps = maps_for(prog.k);
        let p = prog.clone();
        // building the graph is part of every history; a panic here kills the world
        let opts = rig::Opts { shared: p.shared, via: p.via, input_never: p.input_never, pinned_input: p.pinned_input };
        let rig = catch(move || rig::build(p.op, p.mt, opts)).ok();
        MapsWorld {
            prog: prog.clone(),
            cfg: cfg.clone(),
            dead: rig.is_none(),
            rig,
            maps,
            cur: vec![0; prog.op.inputs()],
            processed: None,
            obs: Obs::None,
            dropped_new: false,
            last_read: None,
            equal_run: false,
            obs_hash: 0,
            counters: Counters::new(),
            explain: String::new(),
        }
    }

    fn enabled(&self) -> Vec<Act> {
        if self.prog.rounds {
            let n = self.maps.len() as u16;
            let n2 = if self.prog.op.inputs() == 2 { n } else { 1 };
            let mut out = vec![];
            for toggle in [false, true] {
                for i in 0..n {
                    for j in 0..n2 {
                        out.push(Act::Round(toggle, i, j));
                    }
                }
            }
            return out;
        }
        let mut out = vec![Act::Stabilise];
        if !(self.obs == Obs::New && self.dropped_new) {
            out.push(Act::Toggle);
        }
        for side in 0..self.prog.op.inputs() {
            for i in 0..self.maps.len() {
                // writing the current value again is part of the alphabet (equal-value writes)
                out.push(Act::Set(side as u8, i as u16));
            }
        }
        out
    }

    fn step(&mut self, a: &Act, check: bool) -> Vec<Violation> {
        let Act::Round(toggle, i, j) = a else {
            return self.step_one(a, check);
        };
        let mut subs = vec![];
        if *toggle {
            subs.push(Act::Toggle);
        }
        subs.push(Act::Set(0, *i));
        if self.prog.op.inputs() == 2 {
            subs.push(Act::Set(1, *j));
        }
        subs.push(Act::Stabilise);
        let mut vs = vec![];
        let mut explain = String::new();
        for sub in subs {
            vs.extend(self.step_one(&sub, check));
            explain.push_str(&format!("{sub:?}: {}; ", self.explain));
            if self.dead {
                break;
            }
        }
        self.explain = explain;
        vs
    }

    fn canon(&self) -> Option<String> {
        if self.prog.rounds {
            // round-structured programs exist to exercise the operators' hidden closure state
            // (which no digest can see): never pruned
            return None;
        }
        self.canon_text()
    }
    fn dead(&self) -> bool {
        self.dead
    }

    fn observation_hash(&self) -> u64 {
        self.obs_hash
    }

    fn take_counters(&mut self) -> Counters {
        std::mem::take(&mut self.counters)
    }

    fn teardown(self) {
        let _ = catch(move || drop(self));
    }

    fn prog_json(p: &Prog) -> Json {
        p.to_json()
    }
    fn prog_from_json(j: &Json) -> Option<Prog> {
        Prog::from_json(j)
    }
    fn action_json(a: &Act) -> Json {
        match a {
            Act::Stabilise => json!("stabilise"),
            Act::Toggle => json!("toggle_observer"),
            // "entries*" are informative only (a map's index does not depend on K)
            Act::Set(side, i) => json!({"set": side, "map": i, "entries": entries_json(*i)}),
            Act::Round(toggle, i, j) => json!({"round": {"toggle_observer": toggle, "set0": i, "set1": j, "entries0": entries_json(*i), "entries1": entries_json(*j)}}),
        }
    }
    fn action_from_json(j: &Json) -> Option<Act> {
        match j.as_str() {
            Some("stabilise") => Some(Act::Stabilise),
            Some("toggle_observer") => Some(Act::Toggle),
            Some(_) => None,
            None => {
                if let Some(r) = j.get("round") {
                    return Some(Act::Round(r["toggle_observer"].as_bool()?, r["set0"].as_u64()? as u16, r["set1"].as_u64()? as u16));
                }
                Some(Act::Set(j["set"].as_u64()? as u8, j["map"].as_u64()? as u16))
            }
        }
    }
    fn audit(&self) -> Vec<String> {
        self.rig.as_ref().map_or(vec![], |r| r.state.verif_audit())
    }
    fn explain_last(&self) -> String {
        self.explain.clone()
    }
}
