//! Value domain of the maps world, the three map types behind one trait, and the reference
//! model R5: the plain (non-incremental) definitions of every operator and of the symmetric
//! difference.

use im_rc::OrdMap;
use incremental::Value;
use incremental_map::prelude::*;
use std::collections::{BTreeMap, BTreeSet};
use std::rc::Rc;

pub type Bt = BTreeMap<i32, i32>;

/// Value stored for key `k` in per-key state `s` (1..=v). The key is recoverable from the value
/// (`val / 10`), so that the user functions of `incr_map` / `incr_filter_map`, which only see
/// the value, can still log which key they were called for.
pub fn enc(k: i32, s: i32) -> i32 {
    k * 10 + s
}

/// All maps over keys `0..k` where each key is absent or holds one of `v` values; index 0 is
/// the empty map, digit `i` (base `v+1`) of the index is the state of key `i`.
pub fn all_maps(k: usize, v: usize) -> Vec<Bt> {
    let base = v + 1;
    let n = base.pow(k as u32);
    (0..n)
        .map(|mut ix| {
            let mut m = Bt::new();
            for key in 0..k {
                let s = ix % base;
                ix /= base;
                if s != 0 {
                    m.insert(key as i32, enc(key as i32, s as i32));
                }
            }
            m
        })
        .collect()
}

// ---------------------------------------------------------------------------------------
// map types

/// The three input map types of incremental-map behind one interface.
pub trait MapTy: Value + SymmetricFoldMap<i32, i32> {
    fn from_bt(b: &Bt) -> Self;
    /// A map equal to `target`, produced by editing a clone of `cur` (insert / remove of the
    /// differing keys only), i.e. sharing structure / pointers with `cur` wherever the type
    /// allows it (`OrdMap` nodes, the `Rc` itself when nothing differs).
    fn derive(cur: &Self, target: &Bt) -> Self;
    fn to_bt(&self) -> Bt;
}

fn edit_bt(m: &mut Bt, target: &Bt) {
    let stale: Vec<i32> = m.keys().filter(|k| !target.contains_key(k)).cloned().collect();
    for k in stale {
        m.remove(&k);
    }
    for (k, v) in target {
        if m.get(k) != Some(v) {
            m.insert(*k, *v);
        }
    }
}

impl MapTy for Bt {
    fn from_bt(b: &Bt) -> Self {
        b.clone()
    }
    fn derive(cur: &Self, target: &Bt) -> Self {
        let mut m = cur.clone();
        edit_bt(&mut m, target);
        m
    }
    fn to_bt(&self) -> Bt {
        self.clone()
    }
}

impl MapTy for Rc<Bt> {
    fn from_bt(b: &Bt) -> Self {
        Rc::new(b.clone())
    }
    fn derive(cur: &Self, target: &Bt) -> Self {
        if **cur == *target {
            return cur.clone();
        }
        let mut m = cur.clone();
        edit_bt(Rc::make_mut(&mut m), target);
        m
    }
    fn to_bt(&self) -> Bt {
        (**self).clone()
    }
}

impl MapTy for OrdMap<i32, i32> {
    fn from_bt(b: &Bt) -> Self {
        b.iter().map(|(k, v)| (*k, *v)).collect()
    }
    fn derive(cur: &Self, target: &Bt) -> Self {
        let mut m = cur.clone();
        let stale: Vec<i32> = m.keys().filter(|k| !target.contains_key(k)).cloned().collect();
        for k in stale {
            m.remove(&k);
        }
        for (k, v) in target {
            if m.get(k) != Some(v) {
                m.insert(*k, *v);
            }
        }
        m
    }
    fn to_bt(&self) -> Bt {
        self.iter().map(|(k, v)| (*k, *v)).collect()
    }
}

// ---------------------------------------------------------------------------------------
// scenario descriptors

#[derive(Clone, Copy, Debug, PartialEq, Eq, Hash)]
pub enum Mt {
    Bt,
    Rc,
    Om,
}

impl Mt {
    pub fn name(self) -> &'static str {
        match self {
            Mt::Bt => "bt",
            Mt::Rc => "rc",
            Mt::Om => "om",
        }
    }
    pub fn parse(s: &str) -> Option<Mt> {
        Some(match s {
            "bt" => Mt::Bt,
            "rc" => Mt::Rc,
            "om" => Mt::Om,
            _ => return None,
        })
    }
}

#[derive(Clone, Copy, Debug, PartialEq, Eq, Hash)]
pub enum Op {
    Map,
    FilterMap,
    Mapi,
    FilterMapi,
    /// `incr_unordered_fold` (update=false) / `incr_unordered_fold_update` (update=true)
    Fold { update: bool, revert: bool },
    /// `ClosureFold` builder through `incr_unordered_fold_with`
    CFold { update: bool, revert: bool, initial: bool },
    /// `incr_unordered_fold` without an update function whose accumulator is a *keyed collection* (re-index:
    /// add = insert (k, v+100), remove = delete k): add and remove of one key do not commute, so the order in
    /// which the default `update` composes them matters (added after seed C15-c)
    KFold { revert: bool },
    Merge,
    Partition,
    PartitionMapi,
}

impl Op {
    pub fn name(self) -> String {
        let b = |x: bool| if x { '1' } else { '0' };
        match self {
            Op::Map => "map".into(),
            Op::FilterMap => "filter_map".into(),
            Op::Mapi => "mapi".into(),
            Op::FilterMapi => "filter_mapi".into(),
            Op::Fold { update, revert } => format!("fold.u{}r{}", b(update), b(revert)),
            Op::CFold { update, revert, initial } => format!("cfold.u{}r{}i{}", b(update), b(revert), b(initial)),
            Op::KFold { revert } => format!("kfold.r{}", b(revert)),
            Op::Merge => "merge".into(),
            Op::Partition => "partition".into(),
            Op::PartitionMapi => "partition_mapi".into(),
        }
    }
    pub fn parse(s: &str) -> Option<Op> {
        let flag = |s: &str, c: char| -> Option<bool> {
            let i = s.find(c)?;
            match s.as_bytes().get(i + 1)? {
                b'0' => Some(false),
                b'1' => Some(true),
                _ => None,
            }
        };
        Some(match s {
            "map" => Op::Map,
            "filter_map" => Op::FilterMap,
            "mapi" => Op::Mapi,
            "filter_mapi" => Op::FilterMapi,
            "merge" => Op::Merge,
            "partition" => Op::Partition,
            "partition_mapi" => Op::PartitionMapi,
            _ => {
                if let Some(f) = s.strip_prefix("fold.") {
                    Op::Fold { update: flag(f, 'u')?, revert: flag(f, 'r')? }
                } else if let Some(f) = s.strip_prefix("kfold.") {
                    Op::KFold { revert: flag(f, 'r')? }
                } else if let Some(f) = s.strip_prefix("cfold.") {
                    Op::CFold { update: flag(f, 'u')?, revert: flag(f, 'r')?, initial: flag(f, 'i')? }
                } else {
                    return None;
                }
            }
        })
    }
    pub fn inputs(self) -> usize {
        if self == Op::Merge {
            2
        } else {
            1
        }
    }
    pub fn defined_on(self, mt: Mt) -> bool {
        match self {
            Op::Merge => mt != Mt::Rc,
            Op::Partition | Op::PartitionMapi => mt == Mt::Om,
            _ => true,
        }
    }
}

/// Normalised operator output (whatever the map type, compared as `BTreeMap`s).
#[derive(Clone, Debug, PartialEq, Eq, Hash)]
pub enum Out {
    Map(Bt),
    Num(i64),
    Pair(Bt, Bt),
}

// ---------------------------------------------------------------------------------------
// the user functions' pure parts (shared by the real closures and by R5)

pub const FOLD_INIT: i64 = 7;

/// Weight of an entry in the invertible fold: injective in (key, value) and summing to an
/// injective code of the whole map, so that any wrong add / remove shows in the value.
pub fn weight(k: i32, v: i32) -> i64 {
    assert!((0..6).contains(&k), "fold weights support keys 0..6");
    (v as i64) * 100i64.pow(k as u32)
}
pub fn f_map(v: i32) -> i32 {
    v + 100
}
pub fn f_filter_map(v: i32) -> Option<i32> {
    if v % 10 == 1 {
        Some(v + 100)
    } else {
        None
    }
}
pub fn f_mapi(k: i32, v: i32) -> i32 {
    k * 1000 + v
}
pub fn f_filter_mapi(k: i32, v: i32) -> Option<i32> {
    if v % 10 == 1 {
        Some(k * 1000 + v)
    } else {
        None
    }
}
pub fn f_merge(e: MergeElement<i32, i32>) -> Option<i32> {
    match e {
        MergeElement::Left(a) => Some(a),
        MergeElement::Right(b) => {
            if b % 10 == 1 {
                None
            } else {
                Some(1000 + b)
            }
        }
        MergeElement::Both(a, b) => Some(100_000 + a * 100 + b),
    }
}
pub fn f_partition(v: i32) -> bool {
    v % 10 == 1
}
pub fn f_partition_mapi(k: i32, v: i32) -> Result<i32, i32> {
    if v % 10 == 1 {
        Ok(k * 1000 + v)
    } else {
        Err(-(k * 1000 + v))
    }
}

pub fn merge_elem(l: Option<&i32>, r: Option<&i32>) -> Option<MergeElement<i32, i32>> {
    match (l, r) {
        (None, None) => None,
        (Some(a), None) => Some(MergeElement::Left(*a)),
        (None, Some(b)) => Some(MergeElement::Right(*b)),
        (Some(a), Some(b)) => Some(MergeElement::Both(*a, *b)),
    }
}

// ---------------------------------------------------------------------------------------
// R5: plain definitions

/// The plain function of the current input map(s) that operator `op` must equal (C15).
pub fn expected(op: Op, inputs: &[&Bt]) -> Out {
    let m = inputs[0];
    match op {
        Op::Map => Out::Map(m.iter().map(|(k, v)| (*k, f_map(*v))).collect()),
        Op::FilterMap => Out::Map(m.iter().filter_map(|(k, v)| f_filter_map(*v).map(|x| (*k, x))).collect()),
        Op::Mapi => Out::Map(m.iter().map(|(k, v)| (*k, f_mapi(*k, *v))).collect()),
        Op::FilterMapi => Out::Map(m.iter().filter_map(|(k, v)| f_filter_mapi(*k, *v).map(|x| (*k, x))).collect()),
        Op::Fold { .. } | Op::CFold { .. } => Out::Num(m.iter().fold(FOLD_INIT, |acc, (k, v)| acc + weight(*k, *v))),
        Op::KFold { .. } => Out::Map(m.iter().map(|(k, v)| (*k, v + 100)).collect()),
        Op::Merge => {
            let r = inputs[1];
            let keys: BTreeSet<i32> = m.keys().chain(r.keys()).cloned().collect();
            let mut out = Bt::new();
            for k in keys {
                if let Some(x) = merge_elem(m.get(&k), r.get(&k)).and_then(f_merge) {
                    out.insert(k, x);
                }
            }
            Out::Map(out)
        }
        Op::Partition => {
            let mut l = Bt::new();
            let mut r = Bt::new();
            for (k, v) in m {
                if f_partition(*v) {
                    l.insert(*k, *v);
                } else {
                    r.insert(*k, *v);
                }
            }
            Out::Pair(l, r)
        }
        Op::PartitionMapi => {
            let mut l = Bt::new();
            let mut r = Bt::new();
            for (k, v) in m {
                match f_partition_mapi(*k, *v) {
                    Ok(x) => l.insert(*k, x),
                    Err(x) => r.insert(*k, x),
                };
            }
            Out::Pair(l, r)
        }
    }
}

/// One element of the symmetric difference, by value.
#[derive(Clone, Copy, Debug, PartialEq, Eq, Hash)]
pub enum Diff {
    Left(i32),
    Right(i32),
    Unequal(i32, i32),
}

impl Diff {
    pub fn from_elem(d: DiffElement<&i32>) -> Diff {
        match d {
            DiffElement::Left(a) => Diff::Left(*a),
            DiffElement::Right(b) => Diff::Right(*b),
            DiffElement::Unequal(a, b) => Diff::Unequal(*a, *b),
        }
    }
}

/// Definition of the symmetric difference (C18): the keys present in only one map, or in both
/// with unequal values, in ascending key order.
pub fn sym_diff(old: &Bt, new: &Bt) -> Vec<(i32, Diff)> {
    let keys: BTreeSet<i32> = old.keys().chain(new.keys()).cloned().collect();
    let mut out = vec![];
    for k in keys {
        match (old.get(&k), new.get(&k)) {
            (Some(a), Some(b)) if a != b => out.push((k, Diff::Unequal(*a, *b))),
            (Some(_), Some(_)) => {}
            (Some(a), None) => out.push((k, Diff::Left(*a))),
            (None, Some(b)) => out.push((k, Diff::Right(*b))),
            (None, None) => unreachable!(),
        }
    }
    out
}

pub fn diff_keys(old: &Bt, new: &Bt) -> BTreeSet<i32> {
    sym_diff(old, new).into_iter().map(|(k, _)| k).collect()
}
