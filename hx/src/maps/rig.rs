//! The real side: one `IncrState` with the input variable(s), the operator under test built
//! with logging user functions, and an observer that can be attached / dropped.

use super::domain::*;
use im_rc::OrdMap;
use incremental::{Cutoff, Incr, IncrState, Value, Var};
use incremental_map::im_rc::Either;
use incremental_map::prelude::*;
use std::cell::RefCell;
use std::rc::Rc;

/// One invocation of a user-supplied function.
/// `role`: "f" (map / filter_map / mapi / filter_mapi / partition functions), "add", "remove",
/// "update", "initial" (folds), "merge.left" / "merge.right" / "merge.both" (merge function).
/// `a`, `b`: the value arguments (f: value; add/remove: value; update: old,new; merge: left,right).
#[derive(Clone, Debug, PartialEq, Eq, Hash)]
pub struct Call {
    pub role: &'static str,
    pub key: i32,
    pub a: i32,
    pub b: i32,
}

pub type Log = Rc<RefCell<Vec<Call>>>;

fn push(log: &Log, role: &'static str, key: i32, a: i32, b: i32) {
    log.borrow_mut().push(Call { role, key, a, b });
}

type Reader = Box<dyn Fn() -> Result<Out, String>>;

pub struct Rig {
    // field order = drop order: observer first, handles, then the state
    obs: Option<Reader>,
    /// permanent observers directly on the input variables (`pinned_input`)
    #[allow(dead_code)]
    pins: Vec<Box<dyn std::any::Any>>,
    make_obs: Box<dyn Fn() -> Reader>,
    setters: Vec<Box<dyn Fn(&Bt)>>,
    pub state: IncrState,
    pub log: Log,
}

impl Rig {
    pub fn set(&self, side: usize, m: &Bt) {
        (self.setters[side])(m)
    }
    pub fn observe(&mut self) {
        self.obs = Some((self.make_obs)());
    }
    pub fn unobserve(&mut self) {
        self.obs = None;
    }
    pub fn has_observer(&self) -> bool {
        self.obs.is_some()
    }
    pub fn read(&self) -> Option<Result<Out, String>> {
        self.obs.as_ref().map(|r| r())
    }
    /// Stamp of the operator node's last recomputation (hook H1: the `rec=@n` field of the
    /// only `MapWithOld` node; every operator of this world is built on `map_with_old`).
    /// Two readings around a stabilise differ iff the operator ran in it.
    pub fn op_rec(&self) -> Option<i64> {
        let dump = self.state.verif_dump();
        let line = dump.lines().find(|l| l.contains("kind=MapWithOld"))?;
        let at = line.find(" rec=@")? + 6;
        let rest = &line[at..];
        let end = rest.find(' ').unwrap_or(rest.len());
        rest[..end].parse().ok()
    }
    pub fn take_log(&self) -> Vec<Call> {
        std::mem::take(&mut *self.log.borrow_mut())
    }
}

/// Variant switches of a scenario's real graph.
#[derive(Clone, Copy, Debug, Default, PartialEq, Eq)]
pub struct Opts {
    /// new input values are edits of a clone of the current value
    pub shared: bool,
    /// observe through a downstream identity map
    pub via: bool,
    /// the input variables get `Cutoff::Never`: writing an equal map still makes the operator
    /// run (on an input equal to its stored old input)
    pub input_never: bool,
    /// a permanent observer sits directly on every input variable, so the variable nodes follow
    /// the writes while the operator itself is unobserved
    pub pinned_input: bool,
}

/// Configure one input variable; returns its setter.
fn input_var<M: MapTy>(var: &Var<M>, o: Opts, pins: &mut Vec<Box<dyn std::any::Any>>) -> Box<dyn Fn(&Bt)> {
    if o.input_never {
        var.watch().set_cutoff(Cutoff::Never);
    }
    if o.pinned_input {
        pins.push(Box::new(var.watch().observe()));
    }
    let var = var.clone();
    let shared = o.shared;
    Box::new(move |b: &Bt| {
        let nv = if shared { M::derive(&var.get(), b) } else { M::from_bt(b) };
        var.set(nv)
    })
}

fn finish<R: Value>(state: IncrState, log: Log, setters: Vec<Box<dyn Fn(&Bt)>>, pins: Vec<Box<dyn std::any::Any>>, out: Incr<R>, via: bool, conv: fn(&R) -> Out) -> Rig {
    // `via`: observe the operator through a downstream identity map, so that the operator's
    // self-reported `did_change` (which replaces the cutoff) decides whether the observed
    // value follows.
    let out = if via { out.map(|x| x.clone()) } else { out };
    let make_obs: Box<dyn Fn() -> Reader> = Box::new(move || {
        let o = out.observe();
        Box::new(move || o.try_get_value().map(|v| conv(&v)).map_err(|e| format!("{e:?}")))
    });
    Rig { obs: None, pins, make_obs, setters, state, log }
}

fn conv_map<M: MapTy>(m: &M) -> Out {
    Out::Map(m.to_bt())
}
fn conv_bt(m: &Bt) -> Out {
    Out::Map(m.clone())
}
fn conv_num(n: &i64) -> Out {
    Out::Num(*n)
}
fn conv_pair(p: &(OrdMap<i32, i32>, OrdMap<i32, i32>)) -> Out {
    Out::Pair(p.0.to_bt(), p.1.to_bt())
}

/// Operators of the blanket `IncrMap` trait, on any of the three map types.
fn build_generic<M>(op: Op, o: Opts) -> Rig
where
    M: MapTy + SymmetricMapMap<i32, i32>,
    M::OutputMap<i32>: MapTy,
{
    let state = IncrState::new();
    let log: Log = Rc::new(RefCell::new(vec![]));
    let var: Var<M> = state.var(M::from_bt(&Bt::new()));
    let input: Incr<M> = var.watch();
    let mut pins = vec![];
    let setters = vec![input_var(&var, o, &mut pins)];
    let l = log.clone();
    match op {
        Op::Map => {
            let out = input.incr_map(move |v: &i32| {
                push(&l, "f", *v / 10, *v, 0);
                f_map(*v)
            });
            finish(state, log, setters, pins, out, o.via, conv_map::<M::OutputMap<i32>>)
        }
        Op::FilterMap => {
            let out = input.incr_filter_map(move |v: &i32| {
                push(&l, "f", *v / 10, *v, 0);
                f_filter_map(*v)
            });
            finish(state, log, setters, pins, out, o.via, conv_map::<M::OutputMap<i32>>)
        }
        Op::Mapi => {
            let out = input.incr_mapi(move |k: &i32, v: &i32| {
                push(&l, "f", *k, *v, 0);
                f_mapi(*k, *v)
            });
            finish(state, log, setters, pins, out, o.via, conv_map::<M::OutputMap<i32>>)
        }
        Op::FilterMapi => {
            let out = input.incr_filter_mapi(move |k: &i32, v: &i32| {
                push(&l, "f", *k, *v, 0);
                f_filter_mapi(*k, *v)
            });
            finish(state, log, setters, pins, out, o.via, conv_map::<M::OutputMap<i32>>)
        }
        Op::Fold { update, revert } => {
            let (la, lr, lu) = (log.clone(), log.clone(), log.clone());
            let add = move |acc: i64, k: &i32, v: &i32| {
                push(&la, "add", *k, *v, 0);
                acc + weight(*k, *v)
            };
            let remove = move |acc: i64, k: &i32, v: &i32| {
                push(&lr, "remove", *k, *v, 0);
                acc - weight(*k, *v)
            };
            let out = if update {
                input.incr_unordered_fold_update(
                    FOLD_INIT,
                    add,
                    remove,
                    move |acc: i64, k: &i32, old: &i32, new: &i32| {
                        push(&lu, "update", *k, *old, *new);
                        acc - weight(*k, *old) + weight(*k, *new)
                    },
                    revert,
                )
            } else {
                input.incr_unordered_fold(FOLD_INIT, add, remove, revert)
            };
            finish(state, log, setters, pins, out, o.via, conv_num)
        }
        Op::KFold { revert } => {
            let (la, lr) = (log.clone(), log.clone());
            let add = move |mut acc: Bt, k: &i32, v: &i32| {
                push(&la, "add", *k, *v, 0);
                acc.insert(*k, *v + 100);
                acc
            };
            let remove = move |mut acc: Bt, k: &i32, v: &i32| {
                push(&lr, "remove", *k, *v, 0);
                acc.remove(k);
                acc
            };
            let out = input.incr_unordered_fold(Bt::new(), add, remove, revert);
            finish(state, log, setters, pins, out, o.via, conv_bt)
        }
        Op::CFold { update, revert, initial } => {
            let (la, lr, lu, li) = (log.clone(), log.clone(), log.clone(), log.clone());
            let add = move |acc: i64, k: &i32, v: &i32| {
                push(&la, "add", *k, *v, 0);
                acc + weight(*k, *v)
            };
            let remove = move |acc: i64, k: &i32, v: &i32| {
                push(&lr, "remove", *k, *v, 0);
                acc - weight(*k, *v)
            };
            let upd = move |acc: i64, k: &i32, old: &i32, new: &i32| {
                push(&lu, "update", *k, *old, *new);
                acc - weight(*k, *old) + weight(*k, *new)
            };
            let ini = move |acc: i64, m: &M| {
                push(&li, "initial", -1, m.len() as i32, 0);
                m.nonincremental_fold(acc, |acc, (k, v)| acc + weight(*k, *v))
            };
            // both construction paths of the builder: `new().add().remove()` for the plain
            // variant, `new_add_remove()` for the others
            if !update && !initial {
                let fold = ClosureFold::new::<M, i32, i32, i64>().add(add).remove(remove).revert_to_init_when_empty(revert);
                let out: Incr<i64> = input.incr_unordered_fold_with(FOLD_INIT, fold);
                return finish(state, log, setters, pins, out, o.via, conv_num);
            }
            let base = ClosureFold::new_add_remove(add, remove);
            let out: Incr<i64> = match (update, initial) {
                (false, false) => input.incr_unordered_fold_with(FOLD_INIT, base.revert_to_init_when_empty(revert)),
                (true, false) => input.incr_unordered_fold_with(FOLD_INIT, base.update(upd).revert_to_init_when_empty(revert)),
                (false, true) => input.incr_unordered_fold_with(FOLD_INIT, base.initial(ini).revert_to_init_when_empty(revert)),
                (true, true) => input.incr_unordered_fold_with(FOLD_INIT, base.update(upd).initial(ini).revert_to_init_when_empty(revert)),
            };
            finish(state, log, setters, pins, out, o.via, conv_num)
        }
        Op::Merge | Op::Partition | Op::PartitionMapi => unreachable!("not a generic operator"),
    }
}

fn merge_fn(l: Log) -> impl FnMut(&i32, MergeElement<&i32, &i32>) -> Option<i32> + 'static {
    move |k: &i32, e: MergeElement<&i32, &i32>| {
        let e = e.cloned();
        match e {
            MergeElement::Left(a) => push(&l, "merge.left", *k, a, 0),
            MergeElement::Right(b) => push(&l, "merge.right", *k, 0, b),
            MergeElement::Both(a, b) => push(&l, "merge.both", *k, a, b),
        }
        f_merge(e)
    }
}

fn build_merge_bt(o: Opts) -> Rig {
    let state = IncrState::new();
    let log: Log = Rc::new(RefCell::new(vec![]));
    let left: Var<Bt> = state.var(Bt::new());
    let right: Var<Bt> = state.var(Bt::new());
    let mut pins = vec![];
    let setters = vec![input_var(&left, o, &mut pins), input_var(&right, o, &mut pins)];
    let out = left.watch().incr_merge(&right.watch(), merge_fn(log.clone()));
    finish(state, log, setters, pins, out, o.via, conv_map::<Bt>)
}

fn build_merge_om(o: Opts) -> Rig {
    let state = IncrState::new();
    let log: Log = Rc::new(RefCell::new(vec![]));
    let left: Var<OrdMap<i32, i32>> = state.var(OrdMap::new());
    let right: Var<OrdMap<i32, i32>> = state.var(OrdMap::new());
    let mut pins = vec![];
    let setters = vec![input_var(&left, o, &mut pins), input_var(&right, o, &mut pins)];
    let out = left.watch().incr_merge(&right.watch(), merge_fn(log.clone()));
    finish(state, log, setters, pins, out, o.via, conv_map::<OrdMap<i32, i32>>)
}

fn build_partition(op: Op, o: Opts) -> Rig {
    let state = IncrState::new();
    let log: Log = Rc::new(RefCell::new(vec![]));
    let var: Var<OrdMap<i32, i32>> = state.var(OrdMap::new());
    let mut pins = vec![];
    let setters = vec![input_var(&var, o, &mut pins)];
    let l = log.clone();
    let out: Incr<(OrdMap<i32, i32>, OrdMap<i32, i32>)> = if op == Op::Partition {
        var.watch().incr_partition(move |k: &i32, v: &i32| {
            push(&l, "f", *k, *v, 0);
            f_partition(*v)
        })
    } else {
        var.watch().incr_partition_mapi(move |k: &i32, v: &i32| {
            push(&l, "f", *k, *v, 0);
            match f_partition_mapi(*k, *v) {
                Ok(x) => Either::Left(x),
                Err(x) => Either::Right(x),
            }
        })
    };
    finish(state, log, setters, pins, out, o.via, conv_pair)
}

/// Build the real graph of a scenario. Panics if the operator is not defined on the map type.
pub fn build(op: Op, mt: Mt, o: Opts) -> Rig {
    assert!(op.defined_on(mt), "{op:?} is not defined on {mt:?}");
    match (op, mt) {
        (Op::Merge, Mt::Bt) => build_merge_bt(o),
        (Op::Merge, Mt::Om) => build_merge_om(o),
        (Op::Partition | Op::PartitionMapi, _) => build_partition(op, o),
        (_, Mt::Bt) => build_generic::<Bt>(op, o),
        (_, Mt::Rc) => build_generic::<Rc<Bt>>(op, o),
        (_, Mt::Om) => build_generic::<OrdMap<i32, i32>>(op, o),
    }
}
