//! incremental-map diff-based operators (C15, C17, C18)
//!
//! Entry points used by `plan.rs` (keep these four signatures).

use crate::core::{Cfg, Violation};
use crate::explore::{Marker, Stats};
use crate::plan::{JobDef, Tier};
use serde_json::Value as Json;
use std::time::Instant;

pub fn units(_job: &JobDef, _tier: Tier) -> usize {
    0
}

pub fn run_unit(_job: &JobDef, _job_ix: u32, _unit: usize, _tier: Tier, _deadline: Option<Instant>, _marker: &Marker, stats: &mut Stats) {
    stats.machinery_errors.push("world not implemented".into());
}

pub fn replay(_cfg: &Cfg, _prog: &Json, _history: &[Json]) -> Result<(Vec<(usize, Violation)>, Vec<String>, u64), String> {
    Err("world not implemented".into())
}

pub fn history_from_choices(_job: &JobDef, _unit: usize, _tier: Tier, _choices: &[u16]) -> Option<(Json, Vec<Json>)> {
    None
}
