//! incremental-map diff-based operators (C15, C17, C18)
//!
//! Entry points used by `plan.rs` (keep these four signatures).
//!
//! # Families
//!
//! ## World `MapsWorld` (C15 + C17; arm with `armed=C15` / `armed=C17`; same families for both)
//!
//! A program is (operator, map type, `shared`, `via`, K, `rounds`). `shared`: new input values
//! are edits of a clone of the variable's current value (structure sharing with the operator's
//! stored old input; `OrdMap` programs only). `via`: the output is observed through a
//! downstream identity `map`, so the operator's self-reported `did_change` matters. Maps: all
//! 3^K maps over keys `0..K` x values {1,2}.
//!
//! Program sets (`<set>`):
//! * `single` — 74 programs, K=3: map, filter_map, mapi, filter_mapi, 2 x kfold (keyed accumulator), 4 x fold (update x
//!   revert_to_init), 4 x ClosureFold (pairwise cover of update / revert / initial) on bt, rc,
//!   om, om+shared; filter_mapi / fold.u0r1 / fold.u1r0 again with `via`; partition,
//!   partition_mapi (+via) on om, om+shared.
//! * `core`   — 18 of those: one per implementation path and map type (filter_mapi, fold.u0r1,
//!   fold.u1r0, cfold.u1r*i1, partition_mapi; no `via`).
//! * `merge`  — 6 programs, K=2: incr_merge on bt, om, om+shared, each also with `via`.
//! * `all`    — `single` + `merge`.
//! * `<op>-<mt>[-shared][-via]` — one program, e.g. `filter_mapi-om-shared`,
//!   `fold.u1r0-rc-via`, `cfold.u0r1i1-bt`, `merge-bt`.
//! * `tiny`   — 4 programs: one per implementation path, rotating over the map types
//!   (filter_mapi-bt, fold.u1r0-rc, cfold.u1r0i1-om, partition_mapi-om).
//! * prefixes `never-` / `pinned-` (any order, after `rounds-`) switch on the program flags
//!   `input_never` / `pinned_input` for every program of the set — see "Equal-input runs".
//! * suffix `-k<N>` overrides K: `single-k2`, `single-k4`, `merge-k3`, `merge-bt-k1`.
//!
//! Two alphabets:
//! * `c15/<set>` — **pruned BFS** over elementary actions `Stabilise`, `ToggleObserver`,
//!   `Set(side, m)` for every map m (K=3: 29 actions; merge K=2: 20). The digest is the engine
//!   dump (which shows old outputs) + the model (current input, previously processed input,
//!   observer state, last read). The operators' old *input* lives in a closure that no dump can
//!   see; the model's copy stands in for it. That is exact as long as the engine keeps the two in
//!   sync — a defect that silently desynchronises them can be hidden by pruning (seeded mutant:
//!   `old_input` never refreshed is NOT found by this family, at any depth). Hence:
//! * `c15/rounds-<set>` — **unpruned** round-structured histories (E1): one action = [toggle the
//!   observer]; set every input to any map; stabilise (K=3: 54 actions, merge K=2: 162).
//!   `canon()` is `None` for these programs; run them with `noprune`. Depth L = number of
//!   rounds; L=3 covers every (previous, current) input pair from initial and non-initial
//!   operator states, with and without an unobserved round in between.
//!
//! `c15/single` reaches its fixpoint (all 66 programs exhausted) at depth 14-16: 2.23 M states,
//! 64 M transitions. `c15/merge` does not within reach (K=2: 295 k states per program at depth 8).
//!
//! Recommended (CPU seconds are single-core, release profile, measured on a loaded machine):
//! * quick:    `c15/rounds-single` 3 noprune (10.6 M transitions, ~125 s), `c15/single` 7 (10.0 M,
//!             ~170 s), `c15/merge` 6 (0.9 M, ~25 s), `c15/rounds-merge` 2 noprune (0.16 M, 3 s);
//!             dbg: `c15/single` 4, `c15/rounds-single-k2` 3.
//! * thorough: `c15/single` 16 (fixpoint, ~1600 s), `c15/rounds-single` 3, `c15/rounds-core` 4
//!             noprune (+`split_first`; 18 x 8.7 M histories), `c15/merge` 8 (+`split_first`),
//!             `c15/rounds-merge` 3 noprune with `split_first` (4.25 M histories per program:
//!             over the default `max_states` without the split), `c15/rounds-merge-k1` 5
//!             noprune, `c15/single-k4` 6.
//!
//! ## Equal-input runs (`input_never`, `pinned_input`)
//!
//! In the plain programs an operator never *runs* on an input equal to its stored old input: the
//! input variable has the default cutoff, and while the operator is unobserved nothing keeps the
//! variable node following the writes. Two program flags make such runs reachable:
//! * `input_never` (`c15/never-<set>`, `c15/rounds-never-<set>`): the input variable(s) get
//!   `Cutoff::Never`; writing an equal map makes the operator run on an equal input.
//! * `pinned_input` (`c15/pinned-<set>`, `c15/rounds-pinned-<set>`): a permanent observer sits on
//!   the input variable(s); A -> (detach) B -> A -> (re-attach) lets the operator run on an input
//!   equal to its stored one.
//! Oracle: unchanged. The diff of such a round is empty, so no user-function call is accepted in
//!   it, and the next round may only touch the keys that really differ (the re-attachment slack
//!   applies to the re-attachment round only, not to the round after it). The model records
//!   "the operator's last run was on an equal input" (`equal_run`, read off the operator node's
//!   recomputation stamp in the dump) and includes it in the digest, so that the pruned BFS does
//!   not merge the state after such a run with the state before it.
//! `incr_merge` cannot be reached this way: its internal `zip` node has the default cutoff and
//!   swallows equal pairs before the merge node (witness `rounds_equal_input_run` stays 0 in
//!   `never-merge` / `pinned-merge`); those families are accepted but add little.
//! Seeded change C17-a (`old_input` refreshed only `if didchange`) is found by every family below;
//! shortest history: never + observe, set A, stabilise, set A, stabilise, set A, stabilise.
//! Recommended (single-core CPU seconds, rel):
//! * quick (~36 s):    `c15/rounds-never-core-k2` 3 noprune (3 s), `c15/never-core-k2` 7 (3.5 s),
//!                     `c15/rounds-pinned-tiny-k2` 4 noprune (19.5 s), `c15/pinned-core-k2` 7 (10 s;
//!                     the pruned pinned family needs depth 11 to reach the seeded change).
//! * thorough (~510 s): `c15/rounds-never-core` 3 noprune (92 s), `c15/never-core` 8 (173 s),
//!                     `c15/rounds-pinned-core-k2` 4 noprune (79 s), `c15/pinned-core-k2` 11 (81 s),
//!                     `c15/rounds-never-pinned-core-k2` 4 noprune (86 s).
//! K=1 is useless here (a re-initialisation can only show on a key that did NOT change).
//!
//! ## Direct enumeration families (C18; no BFS; the job's *depth* field is the size parameter)
//!
//! Each has 27 units (items are dealt to units by the index of the first enumerated map).
//!
//! * `c18/pairs-bt`, `c18/pairs-rc`, `c18/pairs-om` [`-shared`] — depth = K: all 9^K ordered pairs of maps over K
//!   keys x 2 values through `SymmetricFoldMap::symmetric_fold`. Quick K=5, thorough K=7.
//!   `-shared`: the second map is an edited clone of the first (pointer / node sharing).
//! * `c18/merge-quads-bt`, `c18/merge-quads-om` [`-shared`] — depth = K: all 81^K quadruples
//!   (old left, old right, new left, new right) through a fresh `incr_merge` graph, two
//!   stabilises, judged on the merge function's call log (also C15 on the two outputs).
//!   Quick K=3 (531 441), thorough K=4 (43 046 721).
//! * `c18/big-om` — depth = N: `OrdMap`s with several tree nodes: base {0,2,..,2(N-1)}, all pairs
//!   of single edits (remove / change / insert at every position, removal of runs of 8 and 40
//!   keys) applied to the shared base, second map also rebuilt from scratch. Quick N=100,
//!   thorough N=300. (Deterministic enumeration over a structured larger domain; it does not
//!   address the "randomly over larger ones" clause.)
//!
//! # Slack deliberately left (see comments at the oracles)
//!
//! * Histories: an observer that was created since the last stabilise can be dropped again only
//!   once before the next stabilise (each such pair leaves a dead entry in the engine's
//!   new-observer queue; unbounded churn would make the pruned state space infinite).
//! * C17: in the first round after the observer was re-attached, touching every key of the
//!   current input once is accepted ("(re)initialising ... may process every key once"); the
//!   witness counter `slack_reinit_used` says whether that ever happened (current engine: 0).
//! * C17: a call for a key that was removed (`Left`) is accepted (its presence differs) even
//!   though the engine never calls map functions for removed keys; which of add / remove /
//!   update is used for a key is not judged (C15's injective fold weights catch wrong ones).
//! * C17: user-function calls outside a stabilise are only counted (`calls_outside_stabilise`).

mod c18;
mod domain;
mod rig;
mod world;

use crate::core::{Cfg, Violation};
use crate::explore::{Marker, Stats};
use crate::plan::{JobDef, Tier};
use domain::{Mt, Op};
use serde_json::Value as Json;
use std::time::Instant;
use world::{MapsWorld, Prog};

fn single_programs(k: u8) -> Vec<Prog> {
    let mut out = vec![];
    let p = |op: Op, mt: Mt, shared: bool, via: bool| Prog { op, mt, shared, via, k, rounds: false, input_never: false, pinned_input: false };
    for (mt, shared) in [(Mt::Bt, false), (Mt::Rc, false), (Mt::Om, false), (Mt::Om, true)] {
        for op in [Op::Map, Op::FilterMap, Op::Mapi, Op::FilterMapi] {
            out.push(p(op, mt, shared, false));
        }
        out.push(p(Op::FilterMapi, mt, shared, true));
        for (update, revert) in [(false, false), (false, true), (true, false), (true, true)] {
            out.push(p(Op::Fold { update, revert }, mt, shared, false));
        }
        out.push(p(Op::Fold { update: false, revert: true }, mt, shared, true));
        out.push(p(Op::Fold { update: true, revert: false }, mt, shared, true));
        out.push(p(Op::KFold { revert: false }, mt, shared, false));
        out.push(p(Op::KFold { revert: true }, mt, shared, true));
        for (update, revert, initial) in [(false, false, false), (true, true, false), (false, true, true), (true, false, true)] {
            out.push(p(Op::CFold { update, revert, initial }, mt, shared, false));
        }
    }
    for shared in [false, true] {
        out.push(p(Op::Partition, Mt::Om, shared, false));
        out.push(p(Op::PartitionMapi, Mt::Om, shared, false));
        out.push(p(Op::PartitionMapi, Mt::Om, shared, true));
    }
    out
}

fn merge_programs(k: u8) -> Vec<Prog> {
    let mut out = vec![];
    for (mt, shared) in [(Mt::Bt, false), (Mt::Om, false), (Mt::Om, true)] {
        for via in [false, true] {
            out.push(Prog { op: Op::Merge, mt, shared, via, k, rounds: false, input_never: false, pinned_input: false });
        }
    }
    out
}

/// Programs of a BFS family (empty: unknown name).
fn programs(family: &str) -> Vec<Prog> {
    let Some(rest) = family.strip_prefix("c15/").or_else(|| family.strip_prefix("c17/")) else {
        return vec![];
    };
    // modifiers, in any order: rounds- / never- / pinned-
    for (prefix, set) in [("rounds-", 0), ("never-", 1), ("pinned-", 2)] {
        if let Some(r) = rest.strip_prefix(prefix) {
            let mut v = programs(&format!("c15/{r}"));
            for p in v.iter_mut() {
                match set {
                    0 => p.rounds = true,
                    1 => p.input_never = true,
                    _ => p.pinned_input = true,
                }
            }
            return v;
        }
    }
    // optional -k<N>
    let (rest, k) = match rest.rsplit_once("-k") {
        Some((r, n)) if n.parse::<u8>().is_ok() => (r, Some(n.parse::<u8>().unwrap())),
        _ => (rest, None),
    };
    match rest {
        "single" => return single_programs(k.unwrap_or(3)),
        "core" => {
            // one representative per implementation path and map type
            let core = |p: &Prog| {
                !p.via
                    && match p.op {
                        Op::FilterMapi | Op::PartitionMapi => true,
                        Op::Fold { update, revert } => update != revert,
                        Op::KFold { revert } => !revert,
                        Op::CFold { update, initial, .. } => update && initial,
                        _ => false,
                    }
            };
            return single_programs(k.unwrap_or(3)).into_iter().filter(core).collect();
        }
        "tiny" => {
            // one program per implementation path, rotating over the map types
            let pick = [(Op::FilterMapi, Mt::Bt), (Op::Fold { update: true, revert: false }, Mt::Rc), (Op::CFold { update: true, revert: false, initial: true }, Mt::Om), (Op::PartitionMapi, Mt::Om)];
            return single_programs(k.unwrap_or(3)).into_iter().filter(|p| !p.via && !p.shared && pick.contains(&(p.op, p.mt))).collect();
        }
        "merge" => return merge_programs(k.unwrap_or(2)),
        "all" => {
            let mut v = single_programs(k.unwrap_or(3));
            v.extend(merge_programs(k.unwrap_or(2)));
            return v;
        }
        _ => {}
    }
    // <op>-<mt>[-shared][-via]
    let mut parts: Vec<&str> = rest.split('-').collect();
    let mut via = false;
    let mut shared = false;
    while let Some(last) = parts.last() {
        match *last {
            "via" => via = true,
            "shared" => shared = true,
            _ => break,
        }
        parts.pop();
    }
    if parts.len() != 2 {
        return vec![];
    }
    let (Some(op), Some(mt)) = (Op::parse(parts[0]), Mt::parse(parts[1])) else {
        return vec![];
    };
    if !op.defined_on(mt) {
        return vec![];
    }
    let k = k.unwrap_or(if op == Op::Merge { 2 } else { 3 });
    vec![Prog { op, mt, shared, via, k, rounds: false, input_never: false, pinned_input: false }]
}

pub fn units(job: &JobDef, _tier: Tier) -> usize {
    if c18::parse_family(&job.family).is_some() {
        return c18::UNITS;
    }
    crate::driver::units::<MapsWorld>(&programs(&job.family), job)
}

pub fn run_unit(job: &JobDef, job_ix: u32, unit: usize, _tier: Tier, deadline: Option<Instant>, marker: &Marker, stats: &mut Stats) {
    if let Some(fam) = c18::parse_family(&job.family) {
        if unit >= c18::UNITS {
            stats.machinery_errors.push(format!("unit {unit} out of range for {}", job.family));
            return;
        }
        c18::run_unit(&fam, &job.cfg(), job.depth, unit, (job_ix, unit as u32), deadline, marker, stats);
        return;
    }
    let progs = programs(&job.family);
    if progs.is_empty() {
        stats.machinery_errors.push(format!("unknown maps family {}", job.family));
        return;
    }
    crate::driver::run_unit::<MapsWorld>(&progs, job, job_ix, unit, deadline, marker, stats)
}

pub fn replay(cfg: &Cfg, prog: &Json, history: &[Json]) -> Result<(Vec<(usize, Violation)>, Vec<String>, u64), String> {
    if prog.get("c18").is_some() {
        return c18::replay(cfg, prog);
    }
    crate::driver::replay::<MapsWorld>(cfg, prog, history)
}

pub fn history_from_choices(job: &JobDef, unit: usize, _tier: Tier, choices: &[u16]) -> Option<(Json, Vec<Json>)> {
    if let Some(fam) = c18::parse_family(&job.family) {
        return c18::prog_from_choices(&fam, job.depth, choices).map(|p| (p, vec![serde_json::json!("check")]));
    }
    crate::driver::history_from_choices::<MapsWorld>(&programs(&job.family), job, unit, choices)
}
