//! C18 by exhaustive input enumeration (E4): no BFS, the loops are here.
//!
//! * `pairs`: all ordered pairs of maps over K keys x 2 values through the public
//!   `SymmetricFoldMap::symmetric_fold`, for each of the three map types.
//! * `quads`: all quadruples (old left, old right, new left, new right) through a real
//!   `incr_merge` graph (initialising stabilise with the old pair, one more with the new pair),
//!   judged on the merge function's call log.
//! * `big`: `OrdMap`s large enough to have several tree nodes: a base map of N keys and all
//!   pairs of single edits of it (structure-sharing and rebuilt from scratch).

use super::domain::*;
use super::rig;
use crate::core::*;
use crate::explore::{Found, Marker, Stats};
use im_rc::OrdMap;
use incremental_map::prelude::*;
use serde_json::{json, Value as Json};
use std::collections::BTreeSet;
use std::rc::Rc;
use std::time::Instant;

/// every C18 family is cut into this many units (by the index of the first enumerated item)
pub const UNITS: usize = 27;

#[derive(Clone, Debug, PartialEq, Eq)]
pub enum Family {
    Pairs { mt: Mt, shared: bool },
    Quads { mt: Mt, shared: bool },
    BigOm,
}

pub fn parse_family(name: &str) -> Option<Family> {
    let rest = name.strip_prefix("c18/")?;
    let (rest, shared) = match rest.strip_suffix("-shared") {
        Some(r) => (r, true),
        None => (rest, false),
    };
    if let Some(mt) = rest.strip_prefix("pairs-") {
        return Some(Family::Pairs { mt: Mt::parse(mt)?, shared });
    }
    if let Some(mt) = rest.strip_prefix("merge-quads-") {
        let mt = Mt::parse(mt)?;
        if mt == Mt::Rc {
            return None;
        }
        return Some(Family::Quads { mt, shared });
    }
    if rest == "big-om" && !shared {
        return Some(Family::BigOm);
    }
    None
}

pub fn bt_json(m: &Bt) -> Json {
    Json::Object(m.iter().map(|(k, v)| (k.to_string(), json!(v))).collect())
}
pub fn bt_from_json(j: &Json) -> Option<Bt> {
    j.as_object()?.iter().map(|(k, v)| Some((k.parse::<i32>().ok()?, v.as_i64()? as i32))).collect()
}

fn record(stats: &mut Stats, v: Violation, prog: &Json, explain: &str) {
    match stats.found.get_mut(&v.sig) {
        Some(f) => f.occurrences += 1,
        None => {
            stats.found.insert(v.sig.clone(), Found { viol: v, prog: prog.clone(), history: vec![json!("check")], explain: explain.to_string(), occurrences: 1 });
        }
    }
}

fn past(deadline: Option<Instant>) -> bool {
    deadline.map_or(false, |d| Instant::now() > d)
}

// ---------------------------------------------------------------------------------------
// symmetric_fold on one pair

/// Compare what `symmetric_fold` visited with the definition. Returns (violations, explanation).
fn judge_diff(mt_name: &str, old: &Bt, new: &Bt, visited: Result<Vec<(i32, Diff)>, PanicInfo>) -> (Vec<Violation>, String) {
    let want = sym_diff(old, new);
    let got = match visited {
        Ok(g) => g,
        Err(p) => {
            return (
                vec![Violation::new("C18", "C18.panic", format!("{mt_name}:symmetric_fold@{}", p.short_location()), format!("symmetric_fold panicked at {}: {}", p.short_location(), p.first_line()))],
                String::new(),
            )
        }
    };
    let explain = format!("visited {got:?}; definition {want:?}");
    if got == want {
        return (vec![], explain);
    }
    let mut vs = vec![];
    let keys: Vec<i32> = got.iter().map(|(k, _)| *k).collect();
    let keyset: BTreeSet<i32> = keys.iter().cloned().collect();
    let wantset: BTreeSet<i32> = want.iter().map(|(k, _)| *k).collect();
    if keyset.len() != keys.len() {
        vs.push(Violation::new("C18", "C18.diff_once", mt_name.to_string(), format!("a key was visited more than once: {explain}")));
    } else if keys.windows(2).any(|w| w[0] >= w[1]) {
        vs.push(Violation::new("C18", "C18.diff_order", mt_name.to_string(), format!("keys not visited in ascending order: {explain}")));
    }
    if keyset != wantset {
        let skipped = wantset.difference(&keyset).next().is_some();
        let spurious = keyset.difference(&wantset).next().is_some();
        let class = match (skipped, spurious) {
            (true, true) => "skipped+spurious",
            (true, false) => "skipped",
            _ => "spurious",
        };
        vs.push(Violation::new("C18", "C18.diff_keys", format!("{mt_name}:{class}"), format!("visited keys are not exactly the differing keys: {explain}")));
    } else if vs.is_empty() {
        vs.push(Violation::new("C18", "C18.diff_elem", mt_name.to_string(), format!("right keys, wrong variant or values: {explain}")));
    }
    (vs, explain)
}

fn fold_pair<M: MapTy>(a: &M, b: &M) -> Result<Vec<(i32, Diff)>, PanicInfo> {
    catch(|| {
        a.symmetric_fold(b, vec![], |mut acc, (k, d)| {
            acc.push((*k, Diff::from_elem(d)));
            acc
        })
    })
}

fn pair_prog(mt: Mt, shared: bool, old: &Bt, new: &Bt) -> Json {
    json!({"c18": "pair", "mt": mt.name(), "shared": shared, "old": bt_json(old), "new": bt_json(new)})
}

fn check_pair_generic<M: MapTy>(mt: Mt, shared: bool, old: &Bt, new: &Bt) -> (Vec<Violation>, String, u64) {
    let a = M::from_bt(old);
    let b = if shared { M::derive(&a, new) } else { M::from_bt(new) };
    let visited = fold_pair(&a, &b);
    let h = hash64(&format!("{visited:?}"));
    let name = if shared { format!("{}-shared", mt.name()) } else { mt.name().to_string() };
    let (vs, ex) = judge_diff(&name, old, new, visited);
    (vs, ex, h)
}

pub fn check_pair(mt: Mt, shared: bool, old: &Bt, new: &Bt) -> (Vec<Violation>, String, u64) {
    match mt {
        Mt::Bt => check_pair_generic::<Bt>(mt, shared, old, new),
        Mt::Rc => check_pair_generic::<Rc<Bt>>(mt, shared, old, new),
        Mt::Om => check_pair_generic::<OrdMap<i32, i32>>(mt, shared, old, new),
    }
}

fn run_pairs(mt: Mt, shared: bool, k: usize, unit: usize, ids: (u32, u32), deadline: Option<Instant>, marker: &Marker, stats: &mut Stats) {
    let maps = all_maps(k, 2);
    stats.programs += 1;
    let mut n = 0u64;
    let mut witness_nonempty = 0u64;
    'outer: for (i, old) in maps.iter().enumerate() {
        if i % UNITS != unit {
            continue;
        }
        if past(deadline) {
            stats.caps.push(format!("deadline hit in c18 pairs at old map {i}"));
            break 'outer;
        }
        for (j, new) in maps.iter().enumerate() {
            marker.mark(ids.0, ids.1, &[i as u16], j as u16);
            let (vs, ex, h) = check_pair(mt, shared, old, new);
            n += 1;
            if old != new {
                witness_nonempty += 1;
            }
            stats.observation_traces.insert(h);
            if !vs.is_empty() {
                let prog = pair_prog(mt, shared, old, new);
                for v in vs {
                    record(stats, v, &prog, &ex);
                }
            }
        }
    }
    stats.transitions += n;
    stats.histories += n;
    stats.states += n;
    *stats.counters.entry("pairs_checked").or_insert(0) += n;
    *stats.counters.entry("pairs_with_nonempty_diff").or_insert(0) += witness_nonempty;
    if stats.samples.len() < 3 {
        if let (Some(old), Some(new)) = (maps.get(unit.min(maps.len() - 1)), maps.last()) {
            stats.samples.push(json!({"program": pair_prog(mt, shared, old, new), "history": ["check"]}));
        }
    }
}

// ---------------------------------------------------------------------------------------
// merge order through incr_merge

type MCall = (i32, MergeElement<i32, i32>);

fn merge_calls(calls: &[rig::Call]) -> Vec<MCall> {
    calls
        .iter()
        .map(|c| {
            (
                c.key,
                match c.role {
                    "merge.left" => MergeElement::Left(c.a),
                    "merge.right" => MergeElement::Right(c.b),
                    _ => MergeElement::Both(c.a, c.b),
                },
            )
        })
        .collect()
}

/// The calls the two diffs imply: one per key that differs in either input and is still present
/// in either new map, ascending, with the variant given by the presence in the new maps.
fn expected_merge_calls(old: (&Bt, &Bt), new: (&Bt, &Bt)) -> Vec<MCall> {
    let mut keys = diff_keys(old.0, new.0);
    keys.extend(diff_keys(old.1, new.1));
    keys.into_iter().filter_map(|k| merge_elem(new.0.get(&k), new.1.get(&k)).map(|e| (k, e))).collect()
}

fn judge_merge(name: &str, round: &str, got: &[MCall], want: &[MCall], vs: &mut Vec<Violation>) {
    if got == want {
        return;
    }
    let explain = format!("{round} round: merge function called with {got:?}; the two diffs imply {want:?}");
    let keys: Vec<i32> = got.iter().map(|(k, _)| *k).collect();
    let keyset: BTreeSet<i32> = keys.iter().cloned().collect();
    let wantset: BTreeSet<i32> = want.iter().map(|(k, _)| *k).collect();
    let n0 = vs.len();
    if keyset.len() != keys.len() {
        vs.push(Violation::new("C18", "C18.merge_once", format!("{name}:{round}"), format!("a key was merged more than once: {explain}")));
    } else if keys.windows(2).any(|w| w[0] >= w[1]) {
        vs.push(Violation::new("C18", "C18.merge_order", format!("{name}:{round}"), format!("keys not merged in global key order: {explain}")));
    }
    if keyset != wantset {
        let skipped = wantset.difference(&keyset).next().is_some();
        let class = if skipped { "skipped" } else { "spurious" };
        vs.push(Violation::new("C18", "C18.merge_keys", format!("{name}:{round}:{class}"), format!("merged keys are not exactly the keys of the two diffs: {explain}")));
    } else if vs.len() == n0 {
        vs.push(Violation::new("C18", "C18.merge_elem", format!("{name}:{round}"), format!("right keys, wrong Left/Right/Both or values: {explain}")));
    }
}

fn quad_prog(mt: Mt, shared: bool, q: [&Bt; 4]) -> Json {
    json!({"c18": "quad", "mt": mt.name(), "shared": shared,
           "old_left": bt_json(q[0]), "old_right": bt_json(q[1]), "new_left": bt_json(q[2]), "new_right": bt_json(q[3])})
}

/// One quadruple through a fresh incr_merge graph. q = [old left, old right, new left, new right].
pub fn check_quad(cfg: &Cfg, mt: Mt, shared: bool, q: [&Bt; 4]) -> (Vec<Violation>, String, u64) {
    let name = if shared { format!("{}-shared", mt.name()) } else { mt.name().to_string() };
    let empty = Bt::new();
    let res = catch(|| {
        let mut r = rig::build(Op::Merge, mt, rig::Opts { shared, ..Default::default() });
        r.set(0, q[0]);
        r.set(1, q[1]);
        r.observe();
        r.state.stabilise();
        let log1 = r.take_log();
        let read1 = r.read();
        r.set(0, q[2]);
        r.set(1, q[3]);
        r.state.stabilise();
        let log2 = r.take_log();
        let read2 = r.read();
        drop(r);
        (log1, read1, log2, read2)
    });
    let mut vs = vec![];
    let (log1, read1, log2, read2) = match res {
        Ok(x) => x,
        Err(p) => {
            vs.push(Violation::new("C18", "C18.panic", format!("{name}:incr_merge@{}", p.short_location()), format!("incr_merge graph panicked at {}: {}", p.short_location(), p.first_line())));
            return (vs, String::new(), 0);
        }
    };
    let (got1, got2) = (merge_calls(&log1), merge_calls(&log2));
    let h = hash64(&format!("{got1:?}{got2:?}{read1:?}{read2:?}"));
    if cfg.is_armed("C18") {
        judge_merge(&name, "init", &got1, &expected_merge_calls((&empty, &empty), (q[0], q[1])), &mut vs);
        judge_merge(&name, "step", &got2, &expected_merge_calls((q[0], q[1]), (q[2], q[3])), &mut vs);
    }
    if cfg.is_armed("C15") {
        for (round, read, l, r) in [("init", &read1, q[0], q[1]), ("step", &read2, q[2], q[3])] {
            let want = expected(Op::Merge, &[l, r]);
            let ok = matches!(read, Some(Ok(got)) if *got == want);
            if !ok {
                let class = match read {
                    Some(Ok(got)) => super::world::mismatch_class(got, &want),
                    _ => "unreadable",
                };
                vs.push(Violation::new("C15", "C15.value", format!("merge-{}:{round}:{class}", mt.name()), format!("{round} round: observed {read:?}, key-wise merge of the current inputs is {want:?}")));
            }
        }
    }
    (vs, format!("init calls {got1:?} read {read1:?}; step calls {got2:?} read {read2:?}"), h)
}

fn run_quads(cfg: &Cfg, mt: Mt, shared: bool, k: usize, unit: usize, ids: (u32, u32), deadline: Option<Instant>, marker: &Marker, stats: &mut Stats) {
    let maps = all_maps(k, 2);
    stats.programs += 1;
    let mut n = 0u64;
    let mut both_diffs = 0u64;
    'outer: for (a, ol) in maps.iter().enumerate() {
        if a % UNITS != unit {
            continue;
        }
        for (b, or) in maps.iter().enumerate() {
            if past(deadline) {
                stats.caps.push(format!("deadline hit in c18 quads at old pair ({a},{b})"));
                break 'outer;
            }
            for (c, nl) in maps.iter().enumerate() {
                for (d, nr) in maps.iter().enumerate() {
                    marker.mark(ids.0, ids.1, &[a as u16, b as u16, c as u16], d as u16);
                    let q = [ol, or, nl, nr];
                    let (vs, ex, h) = check_quad(cfg, mt, shared, q);
                    n += 1;
                    if ol != nl && or != nr {
                        both_diffs += 1;
                    }
                    stats.observation_traces.insert(h);
                    if !vs.is_empty() {
                        let prog = quad_prog(mt, shared, q);
                        for v in vs {
                            record(stats, v, &prog, &ex);
                        }
                    }
                }
            }
        }
    }
    stats.transitions += 2 * n;
    stats.histories += n;
    stats.states += n;
    *stats.counters.entry("quads_checked").or_insert(0) += n;
    *stats.counters.entry("quads_with_both_sides_changed").or_insert(0) += both_diffs;
    if stats.samples.len() < 3 {
        let l = maps.last().unwrap();
        let u = &maps[unit.min(maps.len() - 1)];
        stats.samples.push(json!({"program": quad_prog(mt, shared, [u, l, l, u]), "history": ["check"]}));
    }
}

// ---------------------------------------------------------------------------------------
// large OrdMaps

/// Edits of the base map {0, 2, 4, .., 2(N-1)} -> 1.
#[derive(Clone, Copy, Debug, PartialEq, Eq)]
pub enum Edit {
    None,
    /// remove base key 2i
    Remove(i32),
    /// base key 2i -> 2
    Change(i32),
    /// insert key 2i+1 -> 3 (i = -1: before the first key)
    Insert(i32),
    /// remove base keys 2i .. 2(i+len-1) (forces nodes to merge / rebalance)
    RemoveRun(i32, i32),
}

const RUNS: [i32; 2] = [8, 40];

pub fn big_edits(n: usize) -> Vec<Edit> {
    let n = n as i32;
    let mut out = vec![Edit::None];
    for i in 0..n {
        out.push(Edit::Remove(i));
    }
    for i in 0..n {
        out.push(Edit::Change(i));
    }
    for i in -1..n {
        out.push(Edit::Insert(i));
    }
    for len in RUNS {
        for i in 0..(n - len + 1).max(0) {
            out.push(Edit::RemoveRun(i, len));
        }
    }
    out
}

impl Edit {
    fn to_json(self) -> Json {
        match self {
            Edit::None => json!("none"),
            Edit::Remove(i) => json!({"remove": i}),
            Edit::Change(i) => json!({"change": i}),
            Edit::Insert(i) => json!({"insert": i}),
            Edit::RemoveRun(i, l) => json!({"remove_run": [i, l]}),
        }
    }
    fn from_json(j: &Json) -> Option<Edit> {
        if j.as_str() == Some("none") {
            return Some(Edit::None);
        }
        let o = j.as_object()?;
        let (k, v) = o.iter().next()?;
        Some(match k.as_str() {
            "remove" => Edit::Remove(v.as_i64()? as i32),
            "change" => Edit::Change(v.as_i64()? as i32),
            "insert" => Edit::Insert(v.as_i64()? as i32),
            "remove_run" => Edit::RemoveRun(v[0].as_i64()? as i32, v[1].as_i64()? as i32),
            _ => return None,
        })
    }
    fn apply_bt(self, m: &mut Bt) {
        match self {
            Edit::None => {}
            Edit::Remove(i) => {
                m.remove(&(2 * i));
            }
            Edit::Change(i) => {
                m.insert(2 * i, 2);
            }
            Edit::Insert(i) => {
                m.insert(2 * i + 1, 3);
            }
            Edit::RemoveRun(i, l) => {
                for x in i..i + l {
                    m.remove(&(2 * x));
                }
            }
        }
    }
    fn apply_om(self, m: &mut OrdMap<i32, i32>) {
        match self {
            Edit::None => {}
            Edit::Remove(i) => {
                m.remove(&(2 * i));
            }
            Edit::Change(i) => {
                m.insert(2 * i, 2);
            }
            Edit::Insert(i) => {
                m.insert(2 * i + 1, 3);
            }
            Edit::RemoveRun(i, l) => {
                for x in i..i + l {
                    m.remove(&(2 * x));
                }
            }
        }
    }
}

fn big_base(n: usize) -> Bt {
    (0..n as i32).map(|i| (2 * i, 1)).collect()
}

fn big_prog(n: usize, a: Edit, b: Edit, fresh_b: bool) -> Json {
    json!({"c18": "big-om", "n": n, "a": a.to_json(), "b": b.to_json(), "fresh_b": fresh_b})
}

/// `a_om`/`a_bt`: base with edit a applied (OrdMap derived from the shared base OrdMap).
fn check_big(base_om: &OrdMap<i32, i32>, a_om: &OrdMap<i32, i32>, a_bt: &Bt, base_bt: &Bt, b: Edit, fresh_b: bool) -> (Vec<Violation>, String, u64) {
    let mut b_bt = base_bt.clone();
    b.apply_bt(&mut b_bt);
    let b_om = if fresh_b {
        OrdMap::from_bt(&b_bt)
    } else {
        let mut m = base_om.clone();
        b.apply_om(&mut m);
        m
    };
    let visited = fold_pair(a_om, &b_om);
    let h = hash64(&format!("{visited:?}"));
    let (vs, ex) = judge_diff(if fresh_b { "big-om-fresh" } else { "big-om-shared" }, a_bt, &b_bt, visited);
    (vs, ex, h)
}

fn run_big(n: usize, unit: usize, ids: (u32, u32), deadline: Option<Instant>, marker: &Marker, stats: &mut Stats) {
    let edits = big_edits(n);
    let base_bt = big_base(n);
    let base_om = OrdMap::from_bt(&base_bt);
    stats.programs += 1;
    let mut cnt = 0u64;
    'outer: for (i, a) in edits.iter().enumerate() {
        if i % UNITS != unit {
            continue;
        }
        if past(deadline) {
            stats.caps.push(format!("deadline hit in c18 big-om at edit {i}"));
            break 'outer;
        }
        let mut a_bt = base_bt.clone();
        a.apply_bt(&mut a_bt);
        let mut a_om = base_om.clone();
        a.apply_om(&mut a_om);
        for (j, b) in edits.iter().enumerate() {
            for fresh in [false, true] {
                marker.mark(ids.0, ids.1, &[i as u16, j as u16], fresh as u16);
                let (vs, ex, h) = check_big(&base_om, &a_om, &a_bt, &base_bt, *b, fresh);
                cnt += 1;
                stats.observation_traces.insert(h);
                if !vs.is_empty() {
                    let prog = big_prog(n, *a, *b, fresh);
                    for v in vs {
                        record(stats, v, &prog, &ex);
                    }
                }
            }
        }
    }
    stats.transitions += cnt;
    stats.histories += cnt;
    stats.states += cnt;
    *stats.counters.entry("pairs_checked").or_insert(0) += cnt;
    if stats.samples.len() < 3 {
        stats.samples.push(json!({"program": big_prog(n, edits[unit.min(edits.len() - 1)], *edits.last().unwrap(), false), "history": ["check"]}));
    }
}

// ---------------------------------------------------------------------------------------
// entry points

/// `size`: the job's depth field = K (pairs, quads) or N (big-om).
pub fn run_unit(fam: &Family, cfg: &Cfg, size: usize, unit: usize, ids: (u32, u32), deadline: Option<Instant>, marker: &Marker, stats: &mut Stats) {
    if !cfg.is_armed("C18") && !(cfg.is_armed("C15") && matches!(fam, Family::Quads { .. })) {
        return;
    }
    match fam {
        Family::Pairs { mt, shared } => run_pairs(*mt, *shared, size, unit, ids, deadline, marker, stats),
        Family::Quads { mt, shared } => run_quads(cfg, *mt, *shared, size, unit, ids, deadline, marker, stats),
        Family::BigOm => run_big(size, unit, ids, deadline, marker, stats),
    }
    stats.max_depth_completed = stats.max_depth_completed.max(size);
    stats.min_depth_completed = stats.min_depth_completed.min(size);
    if stats.caps.is_empty() {
        stats.programs_exhausted += 1;
    }
}

/// Re-run one recorded C18 item: the "program" of a replay file is the item, the history is the
/// single pseudo-action "check" (so that replay printers have a step 0 to attach the result to).
pub fn replay(cfg: &Cfg, prog: &Json) -> Result<(Vec<(usize, Violation)>, Vec<String>, u64), String> {
    let kind = prog["c18"].as_str().ok_or("not a c18 program")?;
    let (vs, ex, h) = match kind {
        "pair" => {
            let mt = prog["mt"].as_str().and_then(Mt::parse).ok_or("bad mt")?;
            let shared = prog["shared"].as_bool().unwrap_or(false);
            let old = bt_from_json(&prog["old"]).ok_or("bad old map")?;
            let new = bt_from_json(&prog["new"]).ok_or("bad new map")?;
            check_pair(mt, shared, &old, &new)
        }
        "quad" => {
            let mt = prog["mt"].as_str().and_then(Mt::parse).ok_or("bad mt")?;
            let shared = prog["shared"].as_bool().unwrap_or(false);
            let m = |f: &str| bt_from_json(&prog[f]).ok_or(format!("bad map {f}"));
            let (a, b, c, d) = (m("old_left")?, m("old_right")?, m("new_left")?, m("new_right")?);
            check_quad(cfg, mt, shared, [&a, &b, &c, &d])
        }
        "big-om" => {
            let n = prog["n"].as_u64().ok_or("bad n")? as usize;
            let a = Edit::from_json(&prog["a"]).ok_or("bad edit a")?;
            let b = Edit::from_json(&prog["b"]).ok_or("bad edit b")?;
            let fresh = prog["fresh_b"].as_bool().unwrap_or(false);
            let base_bt = big_base(n);
            let base_om = OrdMap::from_bt(&base_bt);
            let mut a_bt = base_bt.clone();
            a.apply_bt(&mut a_bt);
            let mut a_om = base_om.clone();
            a.apply_om(&mut a_om);
            check_big(&base_om, &a_om, &a_bt, &base_bt, b, fresh)
        }
        _ => return Err(format!("unknown c18 program kind {kind}")),
    };
    Ok((vs.into_iter().map(|v| (0, v)).collect(), vec![ex], h))
}

/// The item a marker's choice list names (abort attribution).
pub fn prog_from_choices(fam: &Family, size: usize, choices: &[u16]) -> Option<Json> {
    let c = |i: usize| choices.get(i).map(|x| *x as usize);
    match fam {
        Family::Pairs { mt, shared } => {
            let maps = all_maps(size, 2);
            Some(pair_prog(*mt, *shared, maps.get(c(0)?)?, maps.get(c(1)?)?))
        }
        Family::Quads { mt, shared } => {
            let maps = all_maps(size, 2);
            Some(quad_prog(*mt, *shared, [maps.get(c(0)?)?, maps.get(c(1)?)?, maps.get(c(2)?)?, maps.get(c(3)?)?]))
        }
        Family::BigOm => {
            let edits = big_edits(size);
            Some(big_prog(size, *edits.get(c(0)?)?, *edits.get(c(1)?)?, c(2)? != 0))
        }
    }
}
