//! incremental-map per-key graph operators (C16, per-key part of C17)
//!
//! Subject: `incr_mapi_`, `incr_filter_mapi_`, `incr_mapi_cutoff`, `incr_filter_mapi_cutoff`
//! on `BTreeMap` (`IncrBTreeMap`) and `im_rc::OrdMap` (`IncrOrdMap`).
//!
//! A program = (operator, cutoff variant, map type, per-key user-function family, K keys).
//! Alphabet: `Stabilise`, `SetMap(i)` for every map over keys `0..K` with values {1,2}
//! (3^K maps), `SetOuter(d)`, d in {0,1,2} (families reading the outer variable only),
//! `ToggleObserver` (drop / re-create the only observer; a world starts observed, empty map).
//!
//! Oracles (after each `Stabilise` with a live observer; `world.rs::judge`):
//!   C16.value                    observed output == per-entry application on the current input
//!   C16.panic                    any panic in any action (reported when C16 is armed; a run
//!                                armed for C17 only counts `history_cut_short_by_panic`)
//!   C17.builder_only_new_keys    F invoked only for keys newly present w.r.t. the operator's
//!                                previous input (= input at the last observed stabilise), once
//!   C17.unchanged_key_recomputed a closure created for key k ran although k's entry equals the
//!                                operator's previous input and the outer variable equals its
//!                                value at the last observed stabilise; or (`fn_eq` programs)
//!                                the custom cutoff was consulted with equal values, i.e. one of
//!                                the library's per-key input nodes recomputed without a change
//! Deliberate slack: closures of keys that are being removed are not judged; nodes shared by
//! all keys (family `shared`, the `other` node of `bind_existing`) are not judged for C17;
//! "F must be called for every new key" is not demanded (C16.value covers its effect);
//! only equality-like cutoffs are used (`Never`, `Fn(==)`), so the definition of C16 applies
//! unchanged to the `_cutoff` operators. No slack was needed for re-observation: the engine
//! does not re-run per-key closures of unchanged keys after an unobserved gap.
//!
//! Pruning: `canon()` = engine dump + model (current input, operator's previous input, outer,
//! outer at last observed round, observer flag, gap flag) + which live node belongs to which
//! key. The operator's hidden closure state is determined by that at quiescent points:
//! `prev_map` = value of the input variable's node, `acc` = value of the result node,
//! `prev_nodes` = the key table + the result node's edges. Checked with `congruence=4` at depth
//! 7 (no MACHINERY line) and against `noprune` at depth 5 (same set of cause signatures).
//!
//! Family names (`hx dev pkmaps <family> <depth>`), `-k2` = 2 keys (9 maps), `-k3` = 3 keys
//! (27 maps; `-k1`..`-k4` are accepted). Each family has one program (= unit) per
//! (map type x operator x cutoff variant): 12 per user-function variant (6 for `identity`,
//! which has no filter form).
//!
//!   family            variants                      units   quick depth   thorough depth
//!   c16/pure-k2       pure                            12        6 (8 ok)       8
//!   c16/identity-k2   identity (`|_k, v| v`)           6        6 (8 ok)       8
//!   c16/map2-k2       map2                            12        6              8
//!   c16/bind-k2       bind_existing, bind_fresh       24        6              8
//!   c16/ignore-k2     ignore_const, ignore_outer      24        6              8
//!   c16/shared-k2     shared_outer, shared_const      24        6              8
//!   c16/all-k2        all of the above               102        6              8
//!   c16/<x>-k3        the same with 3 keys           same       4              6
//! Recommended: quick = all-k2 depth 6 rel + all-k2 depth 5 dbg + all-k3 depth 4 rel
//! (about 340 core-seconds); thorough = all-k2 depth 8 rel + all-k2 depth 7 dbg + all-k3
//! depth 6 rel (about 7800 core-seconds, c16/bind-k3 alone 2700). Every known defect shows at
//! depth 4.
//!
//! Entry points used by `plan.rs` (keep these four signatures).

pub mod world;

use crate::core::{Cfg, Violation};
use crate::explore::{Marker, Stats};
use crate::plan::{JobDef, Tier};
use serde_json::Value as Json;
use std::time::Instant;
use world::{Cut, Fam, MapTy, Op, PkWorld, Prog};

/// Deterministic list of programs of a family. Unknown names give an empty list.
pub fn programs(family: &str, _tier: Tier) -> Vec<Prog> {
    let Some(rest) = family.strip_prefix("c16/") else { return vec![] };
    let Some((name, k)) = rest.rsplit_once("-k") else { return vec![] };
    let Ok(k) = k.parse::<u8>() else { return vec![] };
    if !(1..=4).contains(&k) {
        return vec![];
    }
    let fams: Vec<Fam> = match name {
        "pure" => vec![Fam::Pure],
        "identity" => vec![Fam::Identity],
        "map2" => vec![Fam::Map2],
        "bind" => vec![Fam::BindExisting, Fam::BindFresh, Fam::OuterSwitch],
        "switch" => vec![Fam::OuterSwitch],
        "leak" => vec![Fam::Leak],
        "ignore" => vec![Fam::IgnoreConst, Fam::IgnoreOuter],
        "shared" => vec![Fam::SharedOuter, Fam::SharedConst, Fam::SharedHalfPinned],
        "shared-pinned" => vec![Fam::SharedHalfPinned],
        "all" => Fam::ALL.to_vec(),
        _ => return vec![],
    };
    let mut out = vec![];
    for fam in fams {
        for map in [MapTy::BTree, MapTy::Ord] {
            for op in [Op::Mapi, Op::FilterMapi] {
                if fam == Fam::Identity && op == Op::FilterMapi {
                    continue;
                }
                for cut in [Cut::None, Cut::Never, Cut::FnEq] {
                    if fam == Fam::Leak && cut != Cut::None {
                        continue; // one cutoff variant is enough for this family (cost)
                    }
                    out.push(Prog { op, cut, map, fam, k });
                }
            }
        }
    }
    out
}

pub fn units(job: &JobDef, tier: Tier) -> usize {
    crate::driver::units::<PkWorld>(&programs(&job.family, tier), job)
}

pub fn run_unit(job: &JobDef, job_ix: u32, unit: usize, tier: Tier, deadline: Option<Instant>, marker: &Marker, stats: &mut Stats) {
    crate::driver::run_unit::<PkWorld>(&programs(&job.family, tier), job, job_ix, unit, deadline, marker, stats)
}

pub fn replay(cfg: &Cfg, prog: &Json, history: &[Json]) -> Result<(Vec<(usize, Violation)>, Vec<String>, u64), String> {
    crate::driver::replay::<PkWorld>(cfg, prog, history)
}

pub fn history_from_choices(job: &JobDef, unit: usize, tier: Tier, choices: &[u16]) -> Option<(Json, Vec<Json>)> {
    crate::driver::history_from_choices::<PkWorld>(&programs(&job.family, tier), job, unit, choices)
}
