//! The per-key-map world: one `incr_(filter_)mapi_(cutoff)` operator over a map variable, a
//! per-key user function from one of the families of C16, an optional outer variable, one
//! observer that can be dropped and re-created. Reference model: plain per-entry application.

use crate::core::*;
use im_rc::OrdMap;
use incremental::{Cutoff, Incr, IncrState, Observer, Value, Var};
use incremental_map::prelude::*;
use serde_json::{json, Value as Json};
use std::cell::RefCell;
use std::collections::{BTreeMap, BTreeSet};

pub type K = u8;
pub type V = i32;
pub type BM = BTreeMap<K, V>;
pub type OM = OrdMap<K, V>;

/// constant used by the families that return constants (even: survives the parity filter)
const KONST: i32 = 8;

// ---------------------------------------------------------------------------------------
// programs

#[derive(Clone, Copy, Debug, PartialEq, Eq)]
pub enum Op {
    Mapi,
    FilterMapi,
}

#[derive(Clone, Copy, Debug, PartialEq, Eq)]
pub enum Cut {
    /// `incr_mapi_` / `incr_filter_mapi_`
    None,
    /// `_cutoff(.., Cutoff::Never)`
    Never,
    /// `_cutoff(.., Cutoff::Fn(eq))` with a logging, equality-like comparison
    FnEq,
}

#[derive(Clone, Copy, Debug, PartialEq, Eq)]
pub enum MapTy {
    BTree,
    Ord,
}

#[derive(Clone, Copy, Debug, PartialEq, Eq)]
pub enum Fam {
    /// (a) `|k, v| v.map(|x| 10k + x)`
    Pure,
    /// (a') `|_k, v| v` -- the per-key input node itself is the result (mapi only)
    Identity,
    /// (b) `|k, v| v.map2(&outer, |x, d| 10k + x + d)`
    Map2,
    /// (c) `|_k, v| v.bind(|x| if x even { konst } else { other })`, both pre-existing nodes,
    /// `other = outer.map(|d| 100 + d)`
    BindExisting,
    /// (c) `|k, v| v.bind(|x| outer.map(|d| 10k + x + d))` -- a fresh map per bind run
    BindFresh,
    /// (d) `|_k, _v| state.constant(8)`
    IgnoreConst,
    /// (d) `|k, _v| outer.map(|d| 10k + d)`
    IgnoreOuter,
    /// (e) `|_k, _v| shared.clone()`, `shared = outer.map(|d| 50 + d)` created before the operator
    SharedOuter,
    /// (e) `|_k, _v| shared.clone()`, `shared = state.constant(8)` created before the operator
    SharedConst,
    /// (e) `|_k, _v| shared.clone()`, `shared = outer.map(|d| 50 + d / 2)` (collapsing: it can recompute
    /// to an equal value), and `outer` is also observed on its own, so that it is recomputed while the
    /// shared node is unneeded (no keys) -- added after seeded change C16-a
    SharedHalfPinned,
    /// (c') `|k, v| outer.bind(|d| if d even { v.map(|x| 10k + x) } else { constant(8 + k) })`: a bind on the
    /// *outer* variable that decides whether the key's input node is read at all; the closure keeps holding `v`
    /// while nothing reads it, so the key's value can change while its per-key input node is alive but unneeded
    /// (added after seeded change C16-c)
    OuterSwitch,
    /// (a'') `|k, v| { export(v.clone()); v.map(|x| 10k + x) }`: the function hands a clone of every per-key input
    /// node to the outside, and the harness observes the first one for good: the operator's internal driver then keeps
    /// running while the output itself is unobserved (added after seeded change C16-e). Not part of `ALL`; judged for
    /// C16 only (the operator's diff baseline moves while the output is unobserved, which the C17 bookkeeping of
    /// this world does not follow).
    Leak,
}

impl Fam {
    pub const ALL: [Fam; 11] = [Fam::Pure, Fam::Identity, Fam::Map2, Fam::BindExisting, Fam::BindFresh, Fam::IgnoreConst, Fam::IgnoreOuter, Fam::SharedOuter, Fam::SharedConst, Fam::SharedHalfPinned, Fam::OuterSwitch];
    pub fn uses_outer(self) -> bool {
        matches!(self, Fam::Map2 | Fam::BindExisting | Fam::BindFresh | Fam::IgnoreOuter | Fam::SharedOuter | Fam::SharedHalfPinned | Fam::OuterSwitch)
    }
    pub fn name(self) -> &'static str {
        match self {
            Fam::Pure => "pure",
            Fam::Identity => "identity",
            Fam::Map2 => "map2",
            Fam::BindExisting => "bind_existing",
            Fam::BindFresh => "bind_fresh",
            Fam::IgnoreConst => "ignore_const",
            Fam::IgnoreOuter => "ignore_outer",
            Fam::SharedOuter => "shared_outer",
            Fam::SharedConst => "shared_const",
            Fam::SharedHalfPinned => "shared_half_pinned",
            Fam::OuterSwitch => "outer_switch",
            Fam::Leak => "leak",
        }
    }
    /// the family of the property text this variant belongs to (used in cause signatures)
    pub fn class(self) -> &'static str {
        match self {
            Fam::Pure | Fam::Leak => "pure",
            Fam::Identity => "identity",
            Fam::Map2 => "map2",
            Fam::BindExisting | Fam::BindFresh | Fam::OuterSwitch => "bind",
            Fam::IgnoreConst | Fam::IgnoreOuter => "ignore",
            Fam::SharedOuter | Fam::SharedConst | Fam::SharedHalfPinned => "shared",
        }
    }
    fn from_name(s: &str) -> Option<Fam> {
        Fam::ALL.iter().copied().chain([Fam::Leak]).find(|f| f.name() == s)
    }
    /// the user's per-key computation, before the filter
    fn per_key(self, k: K, x: V, d: i32) -> i32 {
        let k = k as i32;
        match self {
            Fam::Pure | Fam::Leak => 10 * k + x,
            Fam::Identity => x,
            Fam::Map2 => 10 * k + x + d,
            Fam::BindExisting => {
                if x % 2 == 0 {
                    KONST
                } else {
                    100 + d
                }
            }
            Fam::BindFresh => 10 * k + x + d,
            Fam::IgnoreConst => KONST,
            Fam::IgnoreOuter => 10 * k + d,
            Fam::SharedOuter => 50 + d,
            Fam::SharedConst => KONST,
            Fam::SharedHalfPinned => 50 + d.div_euclid(2),
            Fam::OuterSwitch => {
                if d % 2 == 0 {
                    10 * k + x
                } else {
                    KONST + k
                }
            }
        }
    }
}

#[derive(Clone, Debug, PartialEq)]
pub struct Prog {
    pub op: Op,
    pub cut: Cut,
    pub map: MapTy,
    pub fam: Fam,
    /// number of keys (keys are 0..k, values 1..=2)
    pub k: u8,
}

impl Prog {
    pub fn n_maps(&self) -> u16 {
        3u16.pow(self.k as u32)
    }
    /// i-th map over k keys: base-3 digit per key, 0 = absent, 1/2 = value. Index 0 is the
    /// empty map; single-entry maps come early.
    pub fn map_of(&self, i: u16) -> BM {
        let mut m = BM::new();
        let mut i = i;
        for key in 0..self.k {
            let d = i % 3;
            i /= 3;
            if d > 0 {
                m.insert(key, d as i32);
            }
        }
        m
    }
    /// the definition: apply the per-key computation to every current entry
    pub fn reference(&self, cur: &BM, outer: i32) -> BM {
        let mut out = BM::new();
        for (k, x) in cur {
            let r = self.fam.per_key(*k, *x, outer);
            match self.op {
                Op::Mapi => {
                    out.insert(*k, r);
                }
                Op::FilterMapi => {
                    if r % 2 == 0 {
                        out.insert(*k, r);
                    }
                }
            }
        }
        out
    }
    pub fn to_json(&self) -> Json {
        json!({
            "op": match self.op { Op::Mapi => "mapi", Op::FilterMapi => "filter_mapi" },
            "cutoff": match self.cut { Cut::None => "none", Cut::Never => "never", Cut::FnEq => "fn_eq" },
            "map": match self.map { MapTy::BTree => "btree", MapTy::Ord => "ordmap" },
            "fam": self.fam.name(),
            "k": self.k,
        })
    }
    pub fn from_json(j: &Json) -> Option<Prog> {
        Some(Prog {
            op: match j["op"].as_str()? {
                "mapi" => Op::Mapi,
                "filter_mapi" => Op::FilterMapi,
                _ => return None,
            },
            cut: match j["cutoff"].as_str()? {
                "none" => Cut::None,
                "never" => Cut::Never,
                "fn_eq" => Cut::FnEq,
                _ => return None,
            },
            map: match j["map"].as_str()? {
                "btree" => MapTy::BTree,
                "ordmap" => MapTy::Ord,
                _ => return None,
            },
            fam: Fam::from_name(j["fam"].as_str()?)?,
            k: j["k"].as_u64()? as u8,
        })
    }
}

#[derive(Clone, Debug, PartialEq)]
pub enum Act {
    Stabilise,
    SetMap(u16),
    SetOuter(i32),
    ToggleObserver,
}

// ---------------------------------------------------------------------------------------
// event log written by the instrumented user closures

#[derive(Clone, Debug, PartialEq)]
pub enum Ev {
    /// the per-key graph builder F was invoked; ids of its input node and of the node it returned
    Builder { key: K, input: usize, output: usize },
    /// a node function / bind closure created for key `key` ran (`None`: a node that exists
    /// once for all keys)
    Fn { key: Option<K>, role: &'static str, args: Vec<i32> },
    Cutoff { old: i32, new: i32 },
}

thread_local! {
    static LOG: RefCell<Vec<Ev>> = RefCell::new(Vec::new());
}

fn log(ev: Ev) {
    LOG.with(|l| l.borrow_mut().push(ev));
}
fn take_log() -> Vec<Ev> {
    LOG.with(|l| std::mem::take(&mut *l.borrow_mut()))
}

/// the log without node ids (ids differ between two executions of one history)
fn show_log(log: &[Ev]) -> String {
    let items: Vec<String> = log
        .iter()
        .map(|e| match e {
            Ev::Builder { key, .. } => format!("builder({key})"),
            Ev::Fn { key: Some(k), role, args } => format!("{role}[key {k}]{args:?}"),
            Ev::Fn { key: None, role, args } => format!("{role}{args:?}"),
            Ev::Cutoff { old, new } => format!("cutoff({old},{new})"),
        })
        .collect();
    format!("[{}]", items.join(", "))
}

fn cut_eq(a: &i32, b: &i32) -> bool {
    log(Ev::Cutoff { old: *a, new: *b });
    a == b
}

/// Output type of the per-key node: `i32` for the map operators, `Option<i32>` (keep even
/// results) for the filter operators.
trait Out: Value {
    fn wrap(r: i32) -> Self;
    fn identity(v: Incr<i32>) -> Incr<Self>;
}
impl Out for i32 {
    fn wrap(r: i32) -> i32 {
        r
    }
    fn identity(v: Incr<i32>) -> Incr<i32> {
        v
    }
}
impl Out for Option<i32> {
    fn wrap(r: i32) -> Option<i32> {
        if r % 2 == 0 {
            Some(r)
        } else {
            None
        }
    }
    fn identity(_v: Incr<i32>) -> Incr<Option<i32>> {
        unreachable!("identity family exists for the map operators only")
    }
}

type UserFn<T> = Box<dyn FnMut(&K, Incr<V>) -> Incr<T>>;

thread_local! {
    /// family `leak`: while a world is being built, the table its user function will export per-key input nodes to
    /// (each world owns its own table; the closure captures it)
    static LEAK: std::cell::RefCell<Option<std::rc::Rc<std::cell::RefCell<Vec<Incr<V>>>>>> = std::cell::RefCell::new(None);
}

/// Build the per-key user function of family `fam`. Nodes that the property calls
/// "pre-existing" are created here, i.e. before the operator and outside any stabilisation.
fn user_fn<T: Out>(fam: Fam, state: &IncrState, outer: &Incr<i32>) -> UserFn<T> {
    let inner: UserFn<T> = match fam {
        Fam::Pure => Box::new(move |k, v| {
            let k = *k;
            v.map(move |x| {
                log(Ev::Fn { key: Some(k), role: "map", args: vec![*x] });
                T::wrap(fam.per_key(k, *x, 0))
            })
        }),
        Fam::Leak => {
            let table = LEAK.with(|l| l.borrow().clone()).expect("leak table installed by PkWorld::new");
            Box::new(move |k, v| {
            let k = *k;
            table.borrow_mut().push(v.clone());
            v.map(move |x| {
                log(Ev::Fn { key: Some(k), role: "map", args: vec![*x] });
                T::wrap(fam.per_key(k, *x, 0))
            })
            })
        }
        Fam::Identity => Box::new(|_k, v| T::identity(v)),
        Fam::Map2 => {
            let outer = outer.clone();
            Box::new(move |k, v| {
                let k = *k;
                v.map2(&outer, move |x, d| {
                    log(Ev::Fn { key: Some(k), role: "map2", args: vec![*x, *d] });
                    T::wrap(fam.per_key(k, *x, *d))
                })
            })
        }
        Fam::BindExisting => {
            let konst = state.constant(T::wrap(KONST));
            let other = outer.map(|d| {
                log(Ev::Fn { key: None, role: "other", args: vec![*d] });
                T::wrap(100 + *d)
            });
            Box::new(move |k, v| {
                let k = *k;
                let konst = konst.clone();
                let other = other.clone();
                v.bind(move |x| {
                    log(Ev::Fn { key: Some(k), role: "bind", args: vec![*x] });
                    if *x % 2 == 0 {
                        konst.clone()
                    } else {
                        other.clone()
                    }
                })
            })
        }
        Fam::BindFresh => {
            let outer = outer.clone();
            Box::new(move |k, v| {
                let k = *k;
                let outer = outer.clone();
                v.bind(move |x| {
                    let x = *x;
                    log(Ev::Fn { key: Some(k), role: "bind", args: vec![x] });
                    outer.map(move |d| {
                        log(Ev::Fn { key: Some(k), role: "inner", args: vec![x, *d] });
                        T::wrap(fam.per_key(k, x, *d))
                    })
                })
            })
        }
        Fam::OuterSwitch => {
            let outer = outer.clone();
            let ws = state.weak();
            Box::new(move |k, v| {
                let k = *k;
                let ws = ws.clone();
                outer.bind(move |d| {
                    let d = *d;
                    log(Ev::Fn { key: Some(k), role: "bind", args: vec![d] });
                    if d % 2 == 0 {
                        v.map(move |x| {
                            log(Ev::Fn { key: Some(k), role: "inner", args: vec![*x, d] });
                            T::wrap(fam.per_key(k, *x, d))
                        })
                    } else {
                        ws.constant(T::wrap(fam.per_key(k, 0, d)))
                    }
                })
            })
        }
        Fam::IgnoreConst => {
            let ws = state.weak();
            Box::new(move |_k, _v| ws.constant(T::wrap(KONST)))
        }
        Fam::IgnoreOuter => {
            let outer = outer.clone();
            Box::new(move |k, _v| {
                let k = *k;
                outer.map(move |d| {
                    log(Ev::Fn { key: Some(k), role: "outer_map", args: vec![*d] });
                    T::wrap(fam.per_key(k, 0, *d))
                })
            })
        }
        Fam::SharedOuter => {
            let shared = outer.map(move |d| {
                log(Ev::Fn { key: None, role: "shared", args: vec![*d] });
                T::wrap(fam.per_key(0, 0, *d))
            });
            Box::new(move |_k, _v| shared.clone())
        }
        Fam::SharedConst => {
            let shared = state.constant(T::wrap(KONST));
            Box::new(move |_k, _v| shared.clone())
        }
        Fam::SharedHalfPinned => {
            let shared = outer.map(move |d| {
                log(Ev::Fn { key: None, role: "shared", args: vec![*d] });
                T::wrap(fam.per_key(0, 0, *d))
            });
            Box::new(move |_k, _v| shared.clone())
        }
    };
    let mut inner = inner;
    Box::new(move |k, v| {
        let input = v.verif_id();
        let out = inner(k, v);
        log(Ev::Builder { key: *k, input, output: out.verif_id() });
        out
    })
}

enum InVar {
    B(Var<BM>),
    O(Var<OM>),
}
enum OutNode {
    B(Incr<BM>),
    O(Incr<OM>),
}
enum Obs {
    B(Observer<BM>),
    O(Observer<OM>),
}

fn to_om(m: &BM) -> OM {
    m.iter().map(|(k, v)| (*k, *v)).collect()
}
fn to_bm(m: &OM) -> BM {
    m.iter().map(|(k, v)| (*k, *v)).collect()
}

impl Cut {
    fn cutoff(self) -> Cutoff<i32> {
        match self {
            Cut::None => unreachable!(),
            Cut::Never => Cutoff::Never,
            Cut::FnEq => Cutoff::Fn(cut_eq),
        }
    }
}

fn build(prog: &Prog, state: &IncrState, outer: &Incr<i32>) -> (InVar, OutNode) {
    match prog.map {
        MapTy::BTree => {
            let var = state.var(BM::new());
            let lhs = var.watch();
            let out = match (prog.op, prog.cut) {
                (Op::Mapi, Cut::None) => lhs.incr_mapi_(user_fn::<i32>(prog.fam, state, outer)),
                (Op::Mapi, c) => lhs.incr_mapi_cutoff(user_fn::<i32>(prog.fam, state, outer), c.cutoff()),
                (Op::FilterMapi, Cut::None) => lhs.incr_filter_mapi_(user_fn::<Option<i32>>(prog.fam, state, outer)),
                (Op::FilterMapi, c) => lhs.incr_filter_mapi_cutoff(user_fn::<Option<i32>>(prog.fam, state, outer), c.cutoff()),
            };
            (InVar::B(var), OutNode::B(out))
        }
        MapTy::Ord => {
            let var = state.var(OM::new());
            let lhs = var.watch();
            let out = match (prog.op, prog.cut) {
                (Op::Mapi, Cut::None) => lhs.incr_mapi_(user_fn::<i32>(prog.fam, state, outer)),
                (Op::Mapi, c) => lhs.incr_mapi_cutoff(user_fn::<i32>(prog.fam, state, outer), c.cutoff()),
                (Op::FilterMapi, Cut::None) => lhs.incr_filter_mapi_(user_fn::<Option<i32>>(prog.fam, state, outer)),
                (Op::FilterMapi, c) => lhs.incr_filter_mapi_cutoff(user_fn::<Option<i32>>(prog.fam, state, outer), c.cutoff()),
            };
            (InVar::O(var), OutNode::O(out))
        }
    }
}

// ---------------------------------------------------------------------------------------
// the world

/// Everything that touches the engine; `None` after teardown / a failed construction.
struct Real {
    // field order = drop order: observer, nodes, vars, state last
    obs: Option<Obs>,
    out: OutNode,
    var: InVar,
    outer_var: Var<i32>,
    /// family `shared_half_pinned`: an observer of its own on the outer variable
    _outer_pin: Option<Observer<i32>>,
    /// family `leak`: permanent observer on the first per-key input node the user function exported
    leak_pin: Option<Observer<V>>,
    leak_table: std::rc::Rc<std::cell::RefCell<Vec<Incr<V>>>>,
    state: IncrState,
}

pub struct PkWorld {
    prog: Prog,
    cfg: Cfg,
    real: Option<Real>,
    /// harness: ids of (per-key input node, node returned by F) as last reported by F, per key
    key_nodes: BTreeMap<K, (usize, usize)>,
    // ---- reference model
    /// current contents of the map variable
    cur: BM,
    /// the input as of the last round in which the operator ran (= last stabilise with a live
    /// observer): the baseline of the operator's diff
    op_map: BM,
    outer: i32,
    /// outer variable as of the last stabilise with a live observer
    outer_seen: i32,
    observed: bool,
    /// the observer was dropped at some point since the last judged round
    gap: bool,
    // ---- bookkeeping
    dead: bool,
    obs_hash: u64,
    counters: Counters,
    explain: String,
}

fn v16(rule: &'static str, sig: impl Into<String>, detail: impl Into<String>) -> Violation {
    Violation::new("C16", rule, sig, detail)
}
fn v17(rule: &'static str, sig: impl Into<String>, detail: impl Into<String>) -> Violation {
    Violation::new("C17", rule, sig, detail)
}

impl PkWorld {
    fn note(&mut self, k: &'static str) {
        *self.counters.entry(k).or_insert(0) += 1;
    }

    fn exec_real(&mut self, a: &Act) -> Option<Result<BM, String>> {
        let prog = self.prog.clone();
        let r = self.real.as_mut().expect("world is live");
        match a {
            Act::SetMap(i) => {
                let m = prog.map_of(*i);
                match &r.var {
                    InVar::B(v) => v.set(m),
                    InVar::O(v) => v.set(to_om(&m)),
                }
                None
            }
            Act::SetOuter(d) => {
                r.outer_var.set(*d);
                None
            }
            Act::ToggleObserver => {
                if r.obs.is_some() {
                    r.obs = None;
                } else {
                    r.obs = Some(match &r.out {
                        OutNode::B(i) => Obs::B(i.observe()),
                        OutNode::O(i) => Obs::O(i.observe()),
                    });
                }
                None
            }
            Act::Stabilise => {
                r.state.stabilise();
                if prog.fam == Fam::Leak && r.leak_pin.is_none() {
                    let first = r.leak_table.borrow().first().cloned();
                    if let Some(first) = first {
                        r.leak_pin = Some(first.observe());
                    }
                }
                r.obs.as_ref().map(|o| match o {
                    Obs::B(o) => o.try_get_value().map_err(|e| format!("{e:?}")),
                    Obs::O(o) => o.try_get_value().map(|m| to_bm(&m)).map_err(|e| format!("{e:?}")),
                })
            }
        }
    }

    /// Oracles of one stabilise with a live observer. `prev` = operator's baseline.
    fn judge(&mut self, log: &[Ev], seen: &Result<BM, String>, vs: &mut Vec<Violation>) {
        let prog = self.prog.clone();
        let prev = self.op_map.clone();
        let cur = self.cur.clone();
        let class = prog.fam.class();
        let gap = if self.gap { ":after_reobserve" } else { "" };

        // ---- C16.value
        let expected = prog.reference(&cur, self.outer);
        match seen {
            Ok(m) if *m == expected => {}
            Ok(m) => {
                let mut kinds = BTreeSet::new();
                for k in expected.keys() {
                    if !m.contains_key(k) {
                        kinds.insert("missing_key");
                    }
                }
                for (k, x) in m {
                    match expected.get(k) {
                        None => {
                            kinds.insert("stale_key");
                        }
                        Some(y) if y != x => {
                            kinds.insert("wrong_value");
                        }
                        _ => {}
                    }
                }
                let kinds: Vec<&str> = kinds.into_iter().collect();
                vs.push(v16(
                    "C16.value",
                    format!("{}:{}", kinds.join("+"), class),
                    format!("input {cur:?}, outer {}: observed {m:?}, per-entry application gives {expected:?} (operator's previous input {prev:?})", self.outer),
                ));
            }
            Err(e) => {
                vs.push(v16("C16.value", format!("read_error:{e}:{class}"), format!("input {cur:?}: observer read failed with {e} right after stabilise, expected {expected:?}")));
            }
        }

        // ---- C17.builder_only_new_keys
        let mut calls: BTreeMap<K, u32> = BTreeMap::new();
        for e in log {
            if let Ev::Builder { key, .. } = e {
                *calls.entry(*key).or_insert(0) += 1;
            }
        }
        for (k, n) in &calls {
            let newly_present = cur.contains_key(k) && !prev.contains_key(k);
            if !newly_present {
                let what = if cur.contains_key(k) { "key_already_present" } else { "key_absent" };
                vs.push(v17(
                    "C17.builder_only_new_keys",
                    format!("{what}:{class}{gap}"),
                    format!("builder invoked for key {k} which is not newly present: previous input {prev:?}, current {cur:?}"),
                ));
            } else if *n > 1 {
                vs.push(v17(
                    "C17.builder_only_new_keys",
                    format!("twice:{class}{gap}"),
                    format!("builder invoked {n} times for key {k} in one round: previous input {prev:?}, current {cur:?}"),
                ));
            }
        }

        // ---- C17.unchanged_key_recomputed
        // A per-key closure may run when its key is newly present, when the key's value differs
        // from the operator's baseline, or (families reading the outer variable) when the outer
        // variable differs from its value in the last observed round. Closures of removed keys
        // are not judged (presence differs: the text allows work for such keys).
        let outer_changed = prog.fam.uses_outer() && self.outer != self.outer_seen;
        let mut flagged: BTreeSet<(K, &'static str)> = BTreeSet::new();
        for e in log {
            if let Ev::Fn { key: Some(k), role, args } = e {
                let differs = prev.get(k) != cur.get(k);
                if !differs && !outer_changed && flagged.insert((*k, role)) {
                    vs.push(v17(
                        "C17.unchanged_key_recomputed",
                        format!("{role}:{class}{gap}"),
                        format!("per-key closure {role}{args:?} of key {k} ran although neither the key (previous input {prev:?}, current {cur:?}) nor the outer variable ({} -> {}) changed", self.outer_seen, self.outer),
                    ));
                }
            }
        }

        // The per-key *input* nodes are the library's own (not instrumented), but the custom
        // cutoff of the `_cutoff(Fn)` programs is consulted each time such a node recomputes
        // with an old value: the operator recomputes an input node only after it saw the key's
        // value differ, so equal arguments mean a per-key node of an unchanged key recomputed.
        // (Not when the key's entry did change in this round and merely returned to the value the node computed
        // last -- the node can have skipped the values in between while nothing read it; family `outer_switch`.
        // The first version of this rule had no such exception and raised a false alarm there.)
        let explained = |v: &V| cur.iter().any(|(k, x)| x == v && prev.get(k) != Some(x));
        if log.iter().any(|e| matches!(e, Ev::Cutoff { old, new } if old == new && !explained(new))) {
            vs.push(v17(
                "C17.unchanged_key_recomputed",
                format!("input_node_equal_values:{class}{gap}"),
                format!("a per-key input node recomputed although its value did not change (cutoff consulted with equal values): log {}, previous input {prev:?}, current {cur:?}", show_log(log)),
            ));
        }

        // ---- witnesses
        if !calls.is_empty() {
            self.note("builder_called");
        }
        if prev.keys().any(|k| !cur.contains_key(k)) {
            self.note("round_with_key_removed");
        }
        if cur.keys().any(|k| !prev.contains_key(k)) {
            self.note("round_with_key_added");
        }
        if cur.iter().any(|(k, x)| prev.get(k).map_or(false, |y| y != x)) {
            self.note("round_with_value_changed");
        }
        if self.gap && prev != cur {
            self.note("reobserved_after_edit_in_gap");
        }
        if outer_changed {
            self.note("round_with_outer_changed");
        }
        if log.iter().any(|e| matches!(e, Ev::Cutoff { .. })) {
            self.note("cutoff_fn_consulted");
        }
        if log.iter().any(|e| matches!(e, Ev::Fn { role: "bind", .. })) {
            self.note("bind_closure_ran");
        }
        if prog.op == Op::FilterMapi && expected.len() < cur.len() {
            self.note("filter_dropped_a_key");
        }
        if prev == cur && !outer_changed && log.iter().all(|e| !matches!(e, Ev::Fn { key: Some(_), .. })) {
            self.note("quiet_round_no_per_key_work");
        }
    }
}

impl World for PkWorld {
    type Prog = Prog;
    type Action = Act;

    fn new(prog: &Prog, cfg: &Cfg) -> Self {
        incremental::verif_knobs::set_handler_order(cfg.handler_order);
        let _ = take_log();
        let p = prog.clone();
        let built = catch(move || {
            let leak_table = std::rc::Rc::new(std::cell::RefCell::new(vec![]));
            LEAK.with(|l| *l.borrow_mut() = Some(leak_table.clone()));
            let state = IncrState::new();
            let outer_var = state.var(0i32);
            let (var, out) = build(&p, &state, &outer_var.watch());
            let obs = Some(match &out {
                OutNode::B(i) => Obs::B(i.observe()),
                OutNode::O(i) => Obs::O(i.observe()),
            });
            let _outer_pin = if p.fam == Fam::SharedHalfPinned { Some(outer_var.watch().observe()) } else { None };
            LEAK.with(|l| *l.borrow_mut() = None);
            Real { obs, out, var, outer_var, _outer_pin, leak_pin: None, leak_table, state }
        });
        let _ = take_log();
        let (real, dead) = match built {
            Ok(r) => (Some(r), false),
            Err(_) => (None, true),
        };
        PkWorld {
            prog: prog.clone(),
            cfg: cfg.clone(),
            real,
            key_nodes: BTreeMap::new(),
            cur: BM::new(),
            op_map: BM::new(),
            outer: 0,
            outer_seen: 0,
            observed: true,
            gap: false,
            dead,
            obs_hash: 0,
            counters: Counters::new(),
            explain: String::new(),
        }
    }

    fn enabled(&self) -> Vec<Act> {
        let mut out = vec![Act::Stabilise];
        for i in 0..self.prog.n_maps() {
            out.push(Act::SetMap(i));
        }
        if self.prog.fam.uses_outer() {
            for d in 0..3 {
                out.push(Act::SetOuter(d));
            }
        }
        out.push(Act::ToggleObserver);
        out
    }

    fn step(&mut self, a: &Act, check: bool) -> Vec<Violation> {
        let mut vs = vec![];
        self.explain.clear();
        if self.real.is_none() {
            self.dead = true;
            vs.push(Violation::new("MACHINERY", "machinery", "construction", "the world could not be constructed (panic while building the graph)"));
            return vs;
        }
        incremental::verif_knobs::set_handler_order(self.cfg.handler_order);
        let _ = take_log();
        let res = {
            let this = &mut *self;
            catch(move || this.exec_real(a))
        };
        let log = take_log();
        let seen = match res {
            Ok(r) => r,
            Err(p) => {
                self.dead = true;
                self.explain = format!("PANIC at {}: {}\nlog before the panic: {}", p.short_location(), p.first_line(), show_log(&log));
                let kind = match a {
                    Act::Stabilise => "Stabilise",
                    Act::SetMap(_) => "SetMap",
                    Act::SetOuter(_) => "SetOuter",
                    Act::ToggleObserver => "ToggleObserver",
                };
                // "any panic is a violation" is a clause of C16; a run armed for C17 only does not
                // report it (C17 does not forbid panics) but counts the histories it lost to it
                if self.cfg.is_armed("C16") {
                    vs.push(v16(
                        "C16.panic",
                        format!("{kind}@{}", p.short_location()),
                        format!("{a:?} panicked at {}: {} (family {}, input {:?}, operator's previous input {:?})", p.short_location(), p.first_line(), self.prog.fam.name(), self.cur, self.op_map),
                    ));
                } else {
                    self.note("history_cut_short_by_panic");
                }
                return vs;
            }
        };
        // harness table of per-key node ids (only used by canon)
        for e in &log {
            if let Ev::Builder { key, input, output } = e {
                self.key_nodes.insert(*key, (*input, *output));
            }
        }
        // ---- reference model
        match a {
            Act::SetMap(i) => self.cur = self.prog.map_of(*i),
            Act::SetOuter(d) => self.outer = *d,
            Act::ToggleObserver => {
                self.observed = !self.observed;
                if !self.observed {
                    self.gap = true;
                }
            }
            Act::Stabilise => {}
        }
        if !matches!(a, Act::Stabilise) {
            if check && !log.is_empty() {
                // C05 territory (no user function outside stabilise); here it would also break
                // the bookkeeping of this world, so report it as machinery
                vs.push(Violation::new("MACHINERY", "machinery", "user_fn_outside_stabilise", format!("user closures ran during {a:?}: {}", show_log(&log))));
            }
            self.obs_hash = hash64(&(self.obs_hash, format!("{a:?}")));
            return vs;
        }
        match (&seen, self.observed) {
            (Some(seen), true) => {
                if check {
                    let mut scratch = vec![];
                    self.judge(&log, seen, &mut scratch);
                    vs.extend(scratch.into_iter().filter(|x| self.cfg.is_armed(x.property)));
                    self.explain = format!("observed {seen:?}, expected {:?}\nlog: {}", self.prog.reference(&self.cur, self.outer), show_log(&log));
                }
                self.obs_hash = hash64(&(self.obs_hash, format!("{seen:?}")));
                self.op_map = self.cur.clone();
                self.outer_seen = self.outer;
                self.gap = false;
                let cur = self.cur.clone();
                self.key_nodes.retain(|k, _| cur.contains_key(k));
            }
            (None, false) => {
                if check && !log.is_empty() {
                    // nothing is observed: the operator is not needed, no user closure should run.
                    // Not a clause of C16/C17; counted only.
                    self.note("closures_ran_while_unobserved");
                }
                self.obs_hash = hash64(&(self.obs_hash, "unobserved stabilise"));
            }
            _ => {
                vs.push(Violation::new("MACHINERY", "machinery", "observer_bookkeeping", "harness and model disagree about the observer's existence"));
            }
        }
        vs
    }

    fn canon(&self) -> Option<String> {
        let r = self.real.as_ref()?;
        let mut s = r.state.verif_dump();
        // ids of live nodes
        let live: BTreeSet<usize> = s
            .lines()
            .filter_map(|l| l.strip_prefix('#'))
            .filter_map(|l| l.split(' ').next().and_then(|n| n.parse().ok()))
            .collect();
        s.push_str(&format!(
            "MODEL cur={:?} op={:?} outer={} seen={} observed={} gap={}\n",
            self.cur, self.op_map, self.outer, self.outer_seen, self.observed, self.gap
        ));
        // which live node belongs to which key (the operator's `prev_nodes` table)
        for k in self.op_map.keys() {
            match self.key_nodes.get(k) {
                Some((i, o)) => {
                    let f = |id: &usize| if live.contains(id) { format!("#{id}") } else { "dead".to_string() };
                    s.push_str(&format!("KEY {k}: in={} out={}\n", f(i), f(o)));
                }
                None => s.push_str(&format!("KEY {k}: never built\n")),
            }
        }
        Some(canonicalise_dump(&s))
    }

    fn dead(&self) -> bool {
        self.dead
    }

    fn observation_hash(&self) -> u64 {
        self.obs_hash
    }

    fn take_counters(&mut self) -> Counters {
        std::mem::take(&mut self.counters)
    }

    fn teardown(mut self) {
        let real = self.real.take();
        let _ = catch(move || {
            if let Some(r) = real.as_ref() {
                r.leak_table.borrow_mut().clear();
            }
            drop(real)
        });
        let _ = take_log();
    }

    fn prog_json(p: &Prog) -> Json {
        p.to_json()
    }
    fn prog_from_json(j: &Json) -> Option<Prog> {
        Prog::from_json(j)
    }
    fn action_json(a: &Act) -> Json {
        match a {
            Act::Stabilise => json!({"t": "stabilise"}),
            Act::SetMap(i) => {
                // decoded for the reader (K <= 4): digit per key, 0 = absent
                let mut digits = vec![];
                let mut x = *i;
                while x > 0 {
                    digits.push(x % 3);
                    x /= 3;
                }
                json!({"t": "set_map", "i": i, "value_per_key_0_absent": digits})
            }
            Act::SetOuter(d) => json!({"t": "set_outer", "d": d}),
            Act::ToggleObserver => json!({"t": "toggle_observer"}),
        }
    }
    fn action_from_json(j: &Json) -> Option<Act> {
        Some(match j["t"].as_str()? {
            "stabilise" => Act::Stabilise,
            "set_map" => Act::SetMap(j["i"].as_u64()? as u16),
            "set_outer" => Act::SetOuter(j["d"].as_i64()? as i32),
            "toggle_observer" => Act::ToggleObserver,
            _ => return None,
        })
    }
    fn audit(&self) -> Vec<String> {
        self.real.as_ref().map_or(vec![], |r| r.state.verif_audit())
    }
    fn explain_last(&self) -> String {
        self.explain.clone()
    }
}

#[cfg(test)]
mod tests {
    use super::*;

    fn cfg() -> Cfg {
        Cfg { profile: "dbg", handler_order: Some(true), armed: vec![] }
    }

    fn run(prog: &Prog, hist: &[Act]) -> (PkWorld, Vec<Violation>) {
        crate::core::install_panic_hook();
        let mut w = PkWorld::new(prog, &cfg());
        let mut all = vec![];
        for a in hist {
            all.extend(w.step(a, true));
        }
        (w, all)
    }

    #[test]
    fn pk_json_roundtrip() {
        for p in crate::pkmaps::programs("c16/all-k2", crate::plan::Tier::Quick) {
            assert_eq!(Prog::from_json(&p.to_json()), Some(p.clone()));
            let w = PkWorld::new(&p, &cfg());
            for a in w.enabled() {
                assert_eq!(PkWorld::action_from_json(&PkWorld::action_json(&a)), Some(a));
            }
            w.teardown();
        }
        assert_eq!(crate::pkmaps::programs("c16/all-k2", crate::plan::Tier::Quick).len(), 114);
        assert_eq!(crate::pkmaps::programs("c16/identity-k3", crate::plan::Tier::Quick).len(), 6);
    }

    /// the families without known defects are clean on a history with insert, change, removal,
    /// an unobserved gap and outer changes
    #[test]
    fn pk_smoke_clean_families() {
        for fam in [Fam::Pure, Fam::Identity, Fam::Map2, Fam::BindExisting, Fam::BindFresh] {
            for op in [Op::Mapi, Op::FilterMapi] {
                if fam == Fam::Identity && op == Op::FilterMapi {
                    continue;
                }
                for map in [MapTy::BTree, MapTy::Ord] {
                    for cut in [Cut::None, Cut::Never, Cut::FnEq] {
                        let prog = Prog { op, cut, map, fam, k: 2 };
                        let h = vec![
                            Act::SetMap(1), Act::Stabilise, Act::SetMap(5), Act::SetOuter(1), Act::Stabilise, Act::ToggleObserver, Act::SetMap(6), Act::Stabilise,
                            Act::SetOuter(2), Act::ToggleObserver, Act::Stabilise, Act::SetMap(0), Act::Stabilise,
                        ];
                        let (w, vs) = run(&prog, &h);
                        assert!(vs.is_empty(), "{prog:?}: {vs:?}");
                        w.teardown();
                    }
                }
            }
        }
    }

    /// prints canonical states of a few histories (cargo test -- --nocapture pk_show)
    #[test]
    fn pk_show() {
        let fam = std::env::var("PK_FAM").ok().and_then(|s| Fam::from_name(&s)).unwrap_or(Fam::Pure);
        let prog = Prog { op: Op::Mapi, cut: Cut::None, map: MapTy::BTree, fam, k: 2 };
        let hists: Vec<Vec<Act>> = vec![
            vec![Act::Stabilise],
            vec![Act::SetMap(1), Act::Stabilise, Act::SetMap(0), Act::Stabilise],
            vec![Act::SetMap(4), Act::Stabilise],
            vec![Act::SetMap(1), Act::Stabilise, Act::SetMap(4), Act::Stabilise],
            vec![Act::SetMap(3), Act::Stabilise, Act::SetMap(4), Act::Stabilise],
        ];
        for h in hists {
            let (w, vs) = run(&prog, &h);
            println!("==== {h:?}\nviolations: {:?}\n{}", vs.iter().map(|v| &v.sig).collect::<Vec<_>>(), w.canon().unwrap_or_default());
            w.teardown();
        }
    }
}
