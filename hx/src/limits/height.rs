//! C19, height limit: a graph on a limited state in lock-step with the same graph on an
//! unlimited twin state. See `mod.rs` for the overview.
//!
//! Oracle (no height convention baked in). Let, on the twin, `A` = greatest height in use after
//! the twin's stabilise and `S` = greatest height the twin ever assigned (`seen=` of its dump),
//! and `L` the nominal limit of the real state (the N / M last configured successfully):
//!
//! * `A > L`  : the real stabilise must panic, with a message naming the height (contains
//!              "height"): else `C19.rejects` / `C19.message`. The state is then poisoned and
//!              only the drop phase is judged (`C19.drop_after_panic`).
//! * `S <= L` : the real stabilise must not panic (`C19.accepts`), and the observer must read
//!              what the twin's observer reads.
//! * `A <= L < S` (a height above the limit was needed only transiently): unjudged (slack).
//! * `SetMax(M)`: with `U` = twin height in use now: `M >= max(U, S)` must succeed in both
//!   profiles (`C19.shrink_panics`), and `L := M`. `M < U` is the caller's mistake: it must be
//!   refused with a panic (any message; `C19.shrink_below_in_use` if it returns normally) and
//!   must leave the state exactly as it was: `L` is unchanged and the history goes on being
//!   judged as before (accept iff needed <= L, reject naming the height otherwise, drops fine).
//!   `U <= M < S` (below a height seen but no longer in use): whether it succeeds is unjudged
//!   (DESIGN §8); if it succeeds the limit is M, if it panics the same "state unchanged" rule
//!   applies. Signatures of violations found after a refused call carry `+refused-setmax`.
//! * a panic naming a height at any other action is `C19.when`; any other panic `C19.panic`.

use crate::core::*;
use crate::plan::Tier;
use incremental::{Incr, IncrState, Observer, Var};
use serde_json::{json, Value as Json};
use std::rc::Rc;

pub const DEFAULT_LIMIT: i64 = 128;
const DROP_ORDERS: u8 = 4;

#[derive(Clone, Debug, PartialEq)]
pub enum Shape {
    /// `w.map(+1)` repeated `len` times; with `join`, a two-input node `map2(top, w)` on top of
    /// it (a two-input node is recomputed through the recompute heap, a chain of single-input
    /// maps is recomputed directly)
    Chain { len: usize, join: bool },
    /// `depth` nested binds; the bind at `sel_level` has `sel` as its left-hand side (the others
    /// a variable that never changes); the innermost closure returns a chain of `l0` / `l1`
    /// maps over `w` according to `sel` - built inside the closure (`inside`) or beforehand at
    /// top level; `top` maps on top of the outermost bind.
    Bind { depth: u8, sel_level: u8, inside: bool, l0: usize, l1: usize, top: usize },
}

#[derive(Clone, Debug)]
pub struct HProg {
    /// `Some(N)`: `new_with_height(N)`; `None`: `IncrState::new()`
    pub init: Option<usize>,
    pub shape: Shape,
    /// SetMax(M) for M in 1..=mmax
    pub mmax: usize,
    /// at most this many SetMax per history
    pub max_setmax: u8,
}

#[derive(Clone, Debug, PartialEq)]
pub enum HAct {
    Build,
    Observe,
    Unobserve,
    Stabilise,
    SetMax(usize),
    SetSel(u8),
    SetW(u32),
    Drop(u8),
}

struct Side {
    state: Option<IncrState>,
    sel: Option<Var<u8>>,
    u: Option<Var<u8>>,
    w: Option<Var<u32>>,
    /// pre-built chains, root last
    nodes: Vec<Incr<u32>>,
    obs: Option<Observer<u32>>,
}

fn chain(base: &Incr<u32>, len: usize) -> Incr<u32> {
    let mut n = base.clone();
    for _ in 0..len {
        n = n.map(|x| x.wrapping_add(1));
    }
    n
}

type Leaf = Rc<dyn Fn(u8) -> Incr<u32>>;

fn level(j: u8, depth: u8, sel_level: u8, x: Option<u8>, sel: Incr<u8>, u: Incr<u8>, leaf: Leaf) -> Incr<u32> {
    let lhs = if j == sel_level { sel.clone() } else { u.clone() };
    lhs.bind(move |v: &u8| {
        let x = if j == sel_level { Some(*v) } else { x };
        if j + 1 == depth {
            leaf(x.unwrap_or(0))
        } else {
            level(j + 1, depth, sel_level, x, sel.clone(), u.clone(), leaf.clone())
        }
    })
}

impl Side {
    fn new(init: Option<usize>) -> Side {
        Side {
            state: Some(match init {
                Some(n) => IncrState::new_with_height(n),
                None => IncrState::new(),
            }),
            sel: None,
            u: None,
            w: None,
            nodes: vec![],
            obs: None,
        }
    }
    fn st(&self) -> &IncrState {
        self.state.as_ref().unwrap()
    }
    fn build(&mut self, shape: &Shape) {
        let st = self.state.as_ref().unwrap();
        let w = st.var(0u32);
        match shape {
            Shape::Chain { len, join } => {
                let mut root = chain(&w.watch(), *len);
                if *join {
                    root = root.map2(&w.watch(), |a, b| a.wrapping_add(*b));
                }
                self.nodes.push(root);
            }
            Shape::Bind { depth, sel_level, inside, l0, l1, top } => {
                let sel = st.var(0u8);
                let u = st.var(0u8);
                let (l0, l1) = (*l0, *l1);
                let leaf: Leaf = if *inside {
                    let wi = w.watch();
                    Rc::new(move |x| chain(&wi, if x == 0 { l0 } else { l1 }))
                } else {
                    let c0 = chain(&w.watch(), l0);
                    let c1 = chain(&w.watch(), l1);
                    self.nodes.push(c0.clone());
                    self.nodes.push(c1.clone());
                    Rc::new(move |x| if x == 0 { c0.clone() } else { c1.clone() })
                };
                let b = level(0, *depth, *sel_level, None, sel.watch(), u.watch(), leaf);
                let root = chain(&b, *top);
                self.nodes.push(root);
                self.sel = Some(sel);
                self.u = Some(u);
            }
        }
        self.w = Some(w);
    }
    fn in_use(&self) -> i64 {
        self.st().verif_max_height_in_use() as i64
    }
    fn dump(&self) -> String {
        self.st().verif_dump()
    }
    /// greatest height ever assigned (`ahh{.. seen=N ..}` of the dump); None if absent
    fn seen(&self) -> Option<i64> {
        let d = self.dump();
        let i = d.find("ahh{")?;
        let rest = &d[i..];
        let j = rest.find("seen=")?;
        let digits: String = rest[j + 5..].chars().take_while(|c| c.is_ascii_digit() || *c == '-').collect();
        digits.parse().ok()
    }
    fn read(&self) -> Option<Result<u32, String>> {
        self.obs.as_ref().map(|o| o.try_get_value().map_err(|e| format!("{e:?}")))
    }
    fn drop_in_order(self, order: u8) {
        let Side { state, sel, u, w, nodes, obs } = self;
        let vars = (sel, u, w);
        match order {
            0 => {
                drop(obs);
                drop(nodes);
                drop(vars);
                drop(state);
            }
            1 => {
                drop(state);
                drop(vars);
                drop(nodes);
                drop(obs);
            }
            2 => {
                drop(nodes);
                drop(vars);
                drop(obs);
                drop(state);
            }
            _ => {
                drop(state);
                drop(obs);
                drop(nodes);
                drop(vars);
            }
        }
    }
}

pub struct HeightWorld {
    prog: HProg,
    real: Option<Side>,
    twin: Option<Side>,
    built: bool,
    observed: bool,
    sel: u8,
    w: u32,
    /// nominal limit of the real state
    limit: i64,
    /// how the limit was configured last
    via: &'static str,
    setmax_used: u8,
    /// a set_max_height_allowed was refused (panicked) earlier in this history; the state must be
    /// exactly as before it
    refused: bool,
    /// twin: greatest height in use / ever assigned, refreshed after every twin stabilise
    /// (heights change only inside stabilise)
    twin_in_use: i64,
    twin_seen: i64,
    poisoned: bool,
    dead: bool,
    obs_hash: u64,
    counters: Counters,
    explain: String,
}

fn v(rule: &'static str, sig: impl Into<String>, detail: impl Into<String>) -> Violation {
    Violation::new("C19", rule, sig, detail)
}

fn names_height(p: &PanicInfo) -> bool {
    p.message.to_ascii_lowercase().contains("height")
}

impl HeightWorld {
    fn note(&mut self, k: &'static str) {
        *self.counters.entry(k).or_insert(0) += 1;
    }
    fn mix(&mut self, s: &str) {
        self.obs_hash = hash64(&(self.obs_hash, s));
    }
    fn kill(&mut self) {
        self.dead = true;
    }
    fn kind(a: &HAct) -> &'static str {
        match a {
            HAct::Build => "Build",
            HAct::Observe => "Observe",
            HAct::Unobserve => "Unobserve",
            HAct::Stabilise => "Stabilise",
            HAct::SetMax(_) => "SetMax",
            HAct::SetSel(_) => "SetSel",
            HAct::SetW(_) => "SetW",
            HAct::Drop(_) => "Drop",
        }
    }
    /// how the limit was configured, for messages and cause signatures
    fn via_s(&self) -> String {
        if self.refused {
            format!("{}+refused-setmax", self.via)
        } else {
            self.via.to_string()
        }
    }
    fn cfg_text(&self) -> String {
        match self.prog.init {
            Some(n) => format!("new_with_height({n})"),
            None => "IncrState::new()".into(),
        }
    }

    /// Build / Observe / Unobserve / SetSel / SetW on one side.
    fn plain(side: &mut Side, shape: &Shape, a: &HAct) {
        match a {
            HAct::Build => side.build(shape),
            HAct::Observe => {
                let o = side.nodes.last().unwrap().observe();
                side.obs = Some(o);
            }
            HAct::Unobserve => {
                side.obs = None;
            }
            HAct::SetSel(d) => side.sel.as_ref().unwrap().set(*d),
            HAct::SetW(d) => side.w.as_ref().unwrap().set(*d),
            _ => unreachable!(),
        }
    }
}

impl World for HeightWorld {
    type Prog = HProg;
    type Action = HAct;

    fn new(prog: &HProg, _cfg: &Cfg) -> Self {
        HeightWorld {
            prog: prog.clone(),
            real: Some(Side::new(prog.init)),
            twin: Some(Side::new(None)),
            built: false,
            observed: false,
            sel: 0,
            w: 0,
            limit: prog.init.map(|n| n as i64).unwrap_or(DEFAULT_LIMIT),
            via: if prog.init.is_some() { "ctor" } else { "default" },
            setmax_used: 0,
            refused: false,
            twin_in_use: -1,
            twin_seen: 0,
            poisoned: false,
            dead: false,
            obs_hash: 0,
            counters: Counters::new(),
            explain: String::new(),
        }
    }

    fn enabled(&self) -> Vec<HAct> {
        let mut out = vec![];
        if self.dead {
            return out;
        }
        if self.poisoned {
            for k in 0..DROP_ORDERS {
                out.push(HAct::Drop(k));
            }
            return out;
        }
        if !self.built {
            out.push(HAct::Build);
        } else {
            out.push(HAct::Stabilise);
            if self.observed {
                out.push(HAct::Unobserve);
            } else {
                out.push(HAct::Observe);
            }
            if matches!(self.prog.shape, Shape::Bind { .. }) {
                out.push(HAct::SetSel(1 - self.sel));
            }
            out.push(HAct::SetW(1 - self.w));
        }
        if self.setmax_used < self.prog.max_setmax {
            for m in 1..=self.prog.mmax {
                out.push(HAct::SetMax(m));
            }
        }
        out
    }

    fn step(&mut self, a: &HAct, check: bool) -> Vec<Violation> {
        let mut vs = vec![];
        self.explain.clear();
        let kind = Self::kind(a);
        match a {
            HAct::Drop(order) => {
                let real = self.real.take().unwrap();
                let order = *order;
                let r = catch(move || real.drop_in_order(order));
                self.note("drop_after_panic_judged");
                match r {
                    Ok(()) => {
                        self.explain = format!("dropped everything in order {order}: ok");
                        self.mix("drop ok");
                    }
                    Err(p) => {
                        self.explain = format!("drop order {order} PANIC at {}: {}", p.short_location(), p.first_line());
                        self.mix("drop panic");
                        if check {
                            vs.push(v(
                                "C19.drop_after_panic",
                                format!("order{order}:{}@{}", self.via_s(), p.short_location()),
                                format!("after the expected height panic (limit {} via {}), dropping the handles in order {order} panicked at {}: {}", self.limit, self.via_s(), p.short_location(), p.first_line()),
                            ));
                        }
                    }
                }
                self.kill();
            }
            HAct::Build | HAct::Observe | HAct::Unobserve | HAct::SetSel(_) | HAct::SetW(_) => {
                let shape = self.prog.shape.clone();
                let rt = {
                    let twin = self.twin.as_mut().unwrap();
                    catch(|| Self::plain(twin, &shape, a))
                };
                let rr = {
                    let real = self.real.as_mut().unwrap();
                    catch(|| Self::plain(real, &shape, a))
                };
                match a {
                    HAct::Build => self.built = true,
                    HAct::Observe => self.observed = true,
                    HAct::Unobserve => self.observed = false,
                    HAct::SetSel(d) => self.sel = *d,
                    HAct::SetW(d) => self.w = *d,
                    _ => {}
                }
                if let Err(p) = rt {
                    self.explain = format!("twin PANIC at {}: {}", p.short_location(), p.first_line());
                    if check {
                        vs.push(v("C19.panic", format!("twin:{kind}@{}", p.short_location()), format!("{a:?} on the unlimited twin panicked at {}: {}", p.short_location(), p.first_line())));
                    }
                    self.kill();
                    return vs;
                }
                if let Err(p) = rr {
                    self.explain = format!("PANIC at {}: {}", p.short_location(), p.first_line());
                    if check {
                        if names_height(&p) {
                            vs.push(v(
                                "C19.when",
                                format!("{kind}@{}", p.short_location()),
                                format!("{a:?} (limit {} via {}) panicked naming a height outside stabilise, at {}: {}", self.limit, self.via_s(), p.short_location(), p.first_line()),
                            ));
                        } else {
                            vs.push(v("C19.panic", format!("{kind}@{}", p.short_location()), format!("{a:?} panicked at {}: {}", p.short_location(), p.first_line())));
                        }
                    }
                    self.kill();
                    return vs;
                }
                self.explain = format!("{a:?} ok");
                self.mix(kind);
            }
            HAct::SetMax(m) => {
                let m = *m;
                self.setmax_used += 1;
                let (u, s) = (self.twin_in_use, self.twin_seen.max(self.twin_in_use));
                let dir = if (m as i64) > self.limit {
                    "grow"
                } else if (m as i64) < self.limit {
                    "shrink"
                } else {
                    "same"
                };
                let r = {
                    let real = self.real.as_ref().unwrap();
                    catch(|| real.st().set_max_height_allowed(m))
                };
                let mi = m as i64;
                if mi >= s {
                    match r {
                        Ok(()) => {
                            self.explain = format!("set_max_height_allowed({m}) ok ({dir} from {}; twin in use {u}, seen {s})", self.limit);
                            self.limit = mi;
                            self.via = match dir {
                                "grow" => "setmax-grow",
                                "shrink" => "setmax-shrink",
                                _ => "setmax-same",
                            };
                            self.refused = false;
                            self.note("setmax_ok");
                            self.mix("setmax ok");
                        }
                        Err(p) => {
                            self.explain = format!("set_max_height_allowed({m}) PANIC at {}: {}", p.short_location(), p.first_line());
                            if check {
                                vs.push(v(
                                    "C19.shrink_panics",
                                    format!("{dir}@{}", p.short_location()),
                                    format!(
                                        "{}: set_max_height_allowed({m}) ({dir} from {}) with greatest height in use {u} (seen {s}) must succeed, panicked at {}: {}",
                                        self.cfg_text(),
                                        self.limit,
                                        p.short_location(),
                                        p.first_line()
                                    ),
                                ));
                            }
                            self.kill();
                        }
                    }
                } else if mi >= u {
                    // below a height that was seen but is no longer in use: whether it succeeds is
                    // unjudged; a refusal must leave the state as it was
                    self.note("unjudged_setmax_below_seen");
                    match r {
                        Ok(()) => {
                            self.explain = format!("set_max_height_allowed({m}) ok, below seen {s} (unjudged)");
                            self.limit = mi;
                            self.via = "setmax-below-seen";
                            self.refused = false;
                            self.mix("setmax ok");
                        }
                        Err(p) => {
                            self.explain = format!("set_max_height_allowed({m}) below seen {s}: refused ({}); the limit stays {}", p.first_line(), self.limit);
                            self.refused = true;
                            self.note("setmax_refused_below_seen");
                            self.mix("setmax refused");
                        }
                    }
                } else {
                    // below the greatest height in use: the caller's mistake; it must be refused with
                    // a panic (any message) and must leave the state exactly as it was
                    match r {
                        Err(p) => {
                            self.explain = format!("set_max_height_allowed({m}) below height in use {u}: refused ({}); the limit stays {}", p.first_line(), self.limit);
                            self.refused = true;
                            self.note("setmax_refused_below_in_use");
                            self.mix("setmax refused");
                        }
                        Ok(()) => {
                            self.explain = format!("set_max_height_allowed({m}) below height in use {u} was NOT refused");
                            if check {
                                vs.push(v(
                                    "C19.shrink_below_in_use",
                                    format!("{dir}:accepted"),
                                    format!("{}: set_max_height_allowed({m}) (limit {}) with greatest height in use {u} returned normally instead of panicking", self.cfg_text(), self.limit),
                                ));
                            }
                            self.kill();
                        }
                    }
                }
            }
            HAct::Stabilise => {
                let rt = {
                    let twin = self.twin.as_ref().unwrap();
                    catch(|| twin.st().stabilise())
                };
                if let Err(p) = rt {
                    self.explain = format!("twin PANIC at {}: {}", p.short_location(), p.first_line());
                    if check {
                        vs.push(v("C19.panic", format!("twin:{kind}@{}", p.short_location()), format!("stabilise on the unlimited twin panicked at {}: {}", p.short_location(), p.first_line())));
                    }
                    self.kill();
                    return vs;
                }
                let (need, seen) = {
                    let twin = self.twin.as_ref().unwrap();
                    let a = twin.in_use();
                    (a, twin.seen().unwrap_or(a).max(a).max(self.twin_seen))
                };
                self.twin_in_use = need;
                self.twin_seen = seen;
                let rr = {
                    let real = self.real.as_ref().unwrap();
                    catch(|| real.st().stabilise())
                };
                let l = self.limit;
                let ctx = format!("{} limit {l} (via {}), graph needs height {need} (twin; greatest ever assigned {seen})", self.cfg_text(), self.via_s());
                if need > l {
                    // must reject here
                    match rr {
                        Err(p) => {
                            self.explain = format!("{ctx}: rejected at {}: {}", p.short_location(), p.first_line());
                            self.note("rejected");
                            self.mix("rejected");
                            if !names_height(&p) && check {
                                vs.push(v(
                                    "C19.message",
                                    format!("{}@{}", self.via_s(), p.short_location()),
                                    format!("{ctx}: the panic does not name the height limit: {} at {}", p.first_line(), p.short_location()),
                                ));
                            }
                            self.poisoned = true;
                        }
                        Ok(()) => {
                            let got = self.real.as_ref().unwrap().read();
                            self.explain = format!("{ctx}: NOT rejected, observer reads {got:?}");
                            if check {
                                vs.push(v("C19.rejects", self.via_s(), format!("{ctx}: stabilise did not panic (observer reads {got:?})")));
                            }
                            self.kill();
                        }
                    }
                } else if seen <= l {
                    // must accept
                    match rr {
                        Err(p) => {
                            self.explain = format!("{ctx}: PANIC at {}: {}", p.short_location(), p.first_line());
                            if check {
                                vs.push(v(
                                    "C19.accepts",
                                    format!("{}@{}", self.via_s(), p.short_location()),
                                    format!("{ctx}: stabilise panicked at {}: {}", p.short_location(), p.first_line()),
                                ));
                            }
                            self.kill();
                        }
                        Ok(()) => {
                            let real = self.real.as_ref().unwrap();
                            let twin = self.twin.as_ref().unwrap();
                            let (gr, gt) = match catch(|| (real.read(), twin.read())) {
                                Ok(x) => x,
                                Err(p) => {
                                    self.explain = format!("{ctx}: reading PANIC {}", p.first_line());
                                    if check {
                                        vs.push(v("C19.panic", format!("read@{}", p.short_location()), format!("reading an observer panicked: {}", p.first_line())));
                                    }
                                    self.kill();
                                    return vs;
                                }
                            };
                            self.explain = format!("{ctx}: accepted, reads {gr:?} (twin {gt:?})");
                            self.note("accepted");
                            if need == l {
                                self.note("accepted_at_exact_limit");
                            }
                            self.mix(&format!("accepted {gr:?}"));
                            if gr != gt {
                                if check {
                                    vs.push(v("C19.accepts", format!("{}:value", self.via_s()), format!("{ctx}: accepted but the observer reads {gr:?}, the unlimited twin {gt:?}")));
                                }
                                self.kill();
                            }
                        }
                    }
                } else {
                    // a height above the limit was assigned transiently on the twin: unjudged
                    self.note("unjudged_transient_height");
                    match rr {
                        Ok(()) => self.explain = format!("{ctx}: transient height above the limit, accepted (unjudged)"),
                        Err(p) => {
                            self.explain = format!("{ctx}: transient height above the limit, panicked (unjudged): {}", p.first_line());
                            self.kill();
                        }
                    }
                }
            }
        }
        vs
    }

    fn canon(&self) -> Option<String> {
        if self.poisoned || self.dead {
            return None;
        }
        let real = self.real.as_ref()?;
        let twin = self.twin.as_ref()?;
        // The twin executes the same actions minus SetMax, and SetMax changes nothing in the real
        // state but the queue counts (printed as `max=`): the real dump determines the twin's
        // structure; of the twin only the numbers the oracle uses are added.
        let mut s = canonicalise_dump(&real.dump());
        s.push_str(&format!(
            "\n=== harness built={} observed={} sel={} w={} limit={} via={} refused={} setmax_used={} twin_in_use={} twin_seen={} reads={:?}/{:?}",
            self.built,
            self.observed,
            self.sel,
            self.w,
            self.limit,
            self.via,
            self.refused,
            self.setmax_used,
            self.twin_in_use,
            self.twin_seen,
            real.read(),
            twin.read()
        ));
        Some(s)
    }

    fn dead(&self) -> bool {
        self.dead
    }

    fn observation_hash(&self) -> u64 {
        self.obs_hash
    }

    fn take_counters(&mut self) -> Counters {
        std::mem::take(&mut self.counters)
    }

    fn teardown(self) {
        let _ = catch(move || drop(self));
    }

    fn prog_json(p: &HProg) -> Json {
        let shape = match &p.shape {
            Shape::Chain { len, join } => json!({"kind": "chain", "len": len, "join": join}),
            Shape::Bind { depth, sel_level, inside, l0, l1, top } => json!({"kind": "bind", "depth": depth, "sel_level": sel_level, "inside": inside, "l0": l0, "l1": l1, "top": top}),
        };
        json!({"world": "height", "init": p.init, "shape": shape, "mmax": p.mmax, "max_setmax": p.max_setmax})
    }
    fn prog_from_json(j: &Json) -> Option<HProg> {
        let s = j.get("shape")?;
        let u = |o: &Json, k: &str| o.get(k).and_then(|x| x.as_u64());
        let shape = match s.get("kind")?.as_str()? {
            "chain" => Shape::Chain { len: u(s, "len")? as usize, join: s.get("join").and_then(|x| x.as_bool()).unwrap_or(false) },
            "bind" => Shape::Bind {
                depth: u(s, "depth")? as u8,
                sel_level: u(s, "sel_level")? as u8,
                inside: s.get("inside")?.as_bool()?,
                l0: u(s, "l0")? as usize,
                l1: u(s, "l1")? as usize,
                top: u(s, "top")? as usize,
            },
            _ => return None,
        };
        Some(HProg {
            init: j.get("init").and_then(|x| x.as_u64()).map(|x| x as usize),
            shape,
            mmax: u(j, "mmax")? as usize,
            max_setmax: u(j, "max_setmax")? as u8,
        })
    }
    fn action_json(a: &HAct) -> Json {
        match a {
            HAct::SetMax(m) => json!({"a": "SetMax", "m": m}),
            HAct::SetSel(d) => json!({"a": "SetSel", "d": d}),
            HAct::SetW(d) => json!({"a": "SetW", "d": d}),
            HAct::Drop(k) => json!({"a": "Drop", "order": k}),
            other => json!({"a": Self::kind(other)}),
        }
    }
    fn action_from_json(j: &Json) -> Option<HAct> {
        let u = |k: &str| j.get(k).and_then(|x| x.as_u64());
        Some(match j.get("a")?.as_str()? {
            "Build" => HAct::Build,
            "Observe" => HAct::Observe,
            "Unobserve" => HAct::Unobserve,
            "Stabilise" => HAct::Stabilise,
            "SetMax" => HAct::SetMax(u("m")? as usize),
            "SetSel" => HAct::SetSel(u("d")? as u8),
            "SetW" => HAct::SetW(u("d")? as u32),
            "Drop" => HAct::Drop(u("order")? as u8),
            _ => return None,
        })
    }
    fn explain_last(&self) -> String {
        self.explain.clone()
    }
}

// ---------------------------------------------------------------------------------------
// families

/// Heights a bind shape needs with sel = 0 and with sel = 1, measured on an unlimited state.
/// Only used to *select* programs whose heights lie around the limit; the oracle measures again
/// on the twin of every history.
fn measure(shape: &Shape) -> (i64, i64) {
    let one = |sel: u8| -> i64 {
        catch(|| {
            let mut side = Side::new(None);
            side.build(shape);
            if let Some(s) = side.sel.as_ref() {
                s.set(sel);
            }
            side.obs = Some(side.nodes.last().unwrap().observe());
            side.st().stabilise();
            side.in_use()
        })
        .unwrap_or(-1)
    };
    (one(0), one(1))
}

fn nests(thorough: bool) -> Vec<(u8, u8)> {
    let mut v: Vec<(u8, u8)> = vec![(1, 0), (2, 0), (2, 1)];
    if thorough {
        v.extend([(3, 0), (3, 1), (3, 2)]);
    }
    v
}

/// bind shapes whose two right-hand sides need heights in `lo..=hi` (and differ)
fn bind_shapes(lmax: usize, lo: i64, hi: i64, thorough: bool) -> Vec<Shape> {
    let mut out = vec![];
    let tops: &[usize] = if thorough { &[0, 1, 2] } else { &[0, 1] };
    for (depth, sel_level) in nests(thorough) {
        for inside in [true, false] {
            for &top in tops {
                for l0 in 0..=lmax {
                    for l1 in 0..=lmax {
                        if l0 == l1 {
                            continue;
                        }
                        let shape = Shape::Bind { depth, sel_level, inside, l0, l1, top };
                        let (h0, h1) = measure(&shape);
                        if h0 >= lo && h0 <= hi && h1 >= lo && h1 <= hi {
                            out.push(shape);
                        }
                    }
                }
            }
        }
    }
    out
}

/// `height/ctor`, `height/default`; an optional suffix `@N` restricts `height/ctor` to one N
/// (development aid).
pub fn family(name: &str, tier: Tier) -> Vec<HProg> {
    let thorough = tier == Tier::Thorough;
    let (nmax, mmax) = if thorough { (10usize, 12usize) } else { (6, 8) };
    let (base, only_n) = match name.split_once('@') {
        Some((b, n)) => (b, n.parse::<usize>().ok()),
        None => (name, None),
    };
    let mut out = vec![];
    match base {
        "height/ctor" => {
            for n in 1..=nmax {
                if only_n.map_or(false, |o| o != n) {
                    continue;
                }
                for len in 1..=n + 2 {
                    out.push(HProg { init: Some(n), shape: Shape::Chain { len, join: false }, mmax, max_setmax: 2 });
                }
                // a two-input node on top: needed heights 2..=N+2
                for len in 0..=n {
                    out.push(HProg { init: Some(n), shape: Shape::Chain { len, join: true }, mmax, max_setmax: 2 });
                }
                // bind nests whose right-hand sides need heights N-1 ..= N+2
                for shape in bind_shapes(n + 1, n as i64 - 1, n as i64 + 2, thorough) {
                    out.push(HProg { init: Some(n), shape, mmax, max_setmax: if thorough { 2 } else { 1 } });
                }
            }
        }
        "height/default" => {
            for len in 1..=mmax + 1 {
                out.push(HProg { init: None, shape: Shape::Chain { len, join: false }, mmax, max_setmax: 2 });
            }
            for len in [1usize, 3, 5, 7] {
                out.push(HProg { init: None, shape: Shape::Chain { len, join: true }, mmax, max_setmax: 2 });
            }
            for shape in bind_shapes(if thorough { 5 } else { 3 }, 1, mmax as i64 + 1, thorough) {
                out.push(HProg { init: None, shape, mmax, max_setmax: 2 });
            }
        }
        _ => {}
    }
    out
}
