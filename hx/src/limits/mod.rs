//! height limits and misuse (C19)
//!
//! Two worlds, chosen by the family prefix:
//!
//! * `height/...` ([`height::HeightWorld`]): one graph shape (map chain, bind nest around map
//!   chains) on a state limited with `new_with_height(N)` and/or `set_max_height_allowed(M)`,
//!   run in lock-step with a *twin*: the same graph on an unlimited `IncrState::new()`. The
//!   height a history needs is read from the twin (`verif_max_height_in_use`, plus the
//!   `seen=` field of its dump to detect transient heights); no height convention is baked in.
//!   Alphabet: Build, Observe, Unobserve, Stabilise, SetMax(M), SetSel (grow / shrink the bind's
//!   right-hand side), SetW (plain value change), and - once an expected panic poisoned the
//!   state - Drop(order) for four drop orders of observers / nodes / vars / state.
//! * `misuse/...` ([`misuse::MisuseWorld`]): grammar-enumerated programs of <= 4 nodes with
//!   late-bound bind right-hand sides (cycles), foreign-state right-hand sides, and node
//!   functions / update handlers / subscription handlers that call `stabilise`. Reference:
//!   from-scratch evaluation that reports the misuse reachable from the observed nodes.
//!   Alphabet: Observe(i), SetVar(k), Stabilise, SubscribeStab(i), Drop(order).
//!
//! Families (`hx dev limits <family> <depth>`), recommended depths quick | thorough:
//!
//! | family            | what                                                   | quick | thorough |
//! |-------------------|--------------------------------------------------------|-------|----------|
//! | `height/ctor`     | `new_with_height(N)`, N=1..6 (10), SetMax M=1..8 (12)  |   7   |    8     |
//! | `height/default`  | `IncrState::new()` then SetMax                         |   7   |    8     |
//! | `misuse/cycle`    | cycles through 1-2 binds + >=1 other node, <=4 nodes    |   5   |    7     |
//! | `misuse/cross`    | bind returning a node of another state                 |   5   |    7     |
//! | `misuse/nested`   | stabilise from map fn / on_update / subscription       |   5   |    7     |
//!
//! One unit = one program; all families are explored with digest pruning (closures are pure
//! functions of values printed in the digest). The drop phase after an expected panic costs
//! one extra action (`Drop(order)`), so depth d judges drops after panics at depth <= d-1.
//!
//! Rules: C19.accepts, C19.rejects, C19.message, C19.when, C19.shrink_panics, C19.cycle,
//! C19.cross_state, C19.nested_stabilise, C19.drop_after_panic, C19.panic (panic in a
//! well-formed, unlimited part of a history, including the twin).
//!
//! Hangs and stack overflows cannot be caught in-process: the explorer marks every history
//! before executing it (`Marker`), the worker's 30 s watchdog / the supervisor attribute them.
//!
//! Entry points used by `plan.rs` (keep these four signatures).

mod height;
mod misuse;

use crate::core::{Cfg, Violation};
use crate::explore::{Marker, Stats};
use crate::plan::{JobDef, Tier};
use height::{HProg, HeightWorld};
use misuse::{MProg, MisuseWorld};
use serde_json::Value as Json;
use std::cell::RefCell;
use std::collections::HashMap;
use std::rc::Rc;
use std::time::Instant;

thread_local! {
    static HCACHE: RefCell<HashMap<String, Rc<Vec<HProg>>>> = RefCell::new(HashMap::new());
    static MCACHE: RefCell<HashMap<String, Rc<Vec<MProg>>>> = RefCell::new(HashMap::new());
}

fn is_height(family: &str) -> bool {
    family.starts_with("height/")
}

fn hprogs(job: &JobDef, tier: Tier) -> Rc<Vec<HProg>> {
    let key = format!("{}/{}", job.family, tier.name());
    if let Some(p) = HCACHE.with(|c| c.borrow().get(&key).cloned()) {
        return p;
    }
    let p = Rc::new(height::family(&job.family, tier));
    HCACHE.with(|c| c.borrow_mut().insert(key, p.clone()));
    p
}

fn mprogs(job: &JobDef, tier: Tier) -> Rc<Vec<MProg>> {
    let key = format!("{}/{}", job.family, tier.name());
    if let Some(p) = MCACHE.with(|c| c.borrow().get(&key).cloned()) {
        return p;
    }
    let p = Rc::new(misuse::family(&job.family, tier));
    MCACHE.with(|c| c.borrow_mut().insert(key, p.clone()));
    p
}

pub fn units(job: &JobDef, tier: Tier) -> usize {
    if is_height(&job.family) {
        crate::driver::units::<HeightWorld>(&hprogs(job, tier), job)
    } else {
        crate::driver::units::<MisuseWorld>(&mprogs(job, tier), job)
    }
}

pub fn run_unit(job: &JobDef, job_ix: u32, unit: usize, tier: Tier, deadline: Option<Instant>, marker: &Marker, stats: &mut Stats) {
    if is_height(&job.family) {
        crate::driver::run_unit::<HeightWorld>(&hprogs(job, tier), job, job_ix, unit, deadline, marker, stats)
    } else {
        crate::driver::run_unit::<MisuseWorld>(&mprogs(job, tier), job, job_ix, unit, deadline, marker, stats)
    }
}

pub fn replay(cfg: &Cfg, prog: &Json, history: &[Json]) -> Result<(Vec<(usize, Violation)>, Vec<String>, u64), String> {
    if prog.get("world").and_then(|w| w.as_str()) == Some("height") {
        crate::driver::replay::<HeightWorld>(cfg, prog, history)
    } else {
        crate::driver::replay::<MisuseWorld>(cfg, prog, history)
    }
}

pub fn history_from_choices(job: &JobDef, unit: usize, tier: Tier, choices: &[u16]) -> Option<(Json, Vec<Json>)> {
    if is_height(&job.family) {
        crate::driver::history_from_choices::<HeightWorld>(&hprogs(job, tier), job, unit, choices)
    } else {
        crate::driver::history_from_choices::<MisuseWorld>(&mprogs(job, tier), job, unit, choices)
    }
}
