//! height limits and misuse (C19)
//!
//! Two worlds, chosen by the family prefix:
//!
//! * `height/...` ([`height::HeightWorld`]): one graph shape (map chain, map chain with a
//!   two-input node on top, bind nest around map chains) on a state limited with
//!   `new_with_height(N)` and/or `set_max_height_allowed(M)`,
//!   run in lock-step with a *twin*: the same graph on an unlimited `IncrState::new()`. The
//!   height a history needs is read from the twin (`verif_max_height_in_use`, plus the
//!   `seen=` field of its dump to detect transient heights); no height convention is baked in.
//!   Alphabet: Build, Observe, Unobserve, Stabilise, SetMax(M), SetSel (grow / shrink the bind's
//!   right-hand side), SetW (plain value change), and - once an expected panic poisoned the
//!   state - Drop(order) for four drop orders of observers / nodes / vars / state.
//! * `misuse/...` ([`misuse::MisuseWorld`]): grammar-enumerated programs of <= 4 nodes with
//!   late-bound bind right-hand sides (cycles), foreign-state right-hand sides, and node
//!   functions / update handlers / subscription handlers that call `stabilise`. Reference:
//!   from-scratch evaluation that reports the misuse reachable from the observed nodes.
//!   Alphabet: Observe(i), SetVar(k), Stabilise, SubscribeStab(i), Drop(order).
//!
//! Families (`hx dev limits <family> <depth>`), recommended depths quick | thorough; unit = one
//! program; sizes are quick-tier program counts (thorough in brackets):
//!
//! | family               | what                                                       | units       | quick | thorough |
//! |----------------------|------------------------------------------------------------|-------------|-------|----------|
//! | `height/ctor`        | `new_with_height(N)`, N=1..6 (10), SetMax M=1..8 (12)      | 493         |   6   |    7     |
//! | `height/default`     | `IncrState::new()` then SetMax                             | 153         |   6   |    7     |
//! | `misuse/cycle-small` | cycles through 1-2 binds + >=1 other node, <=3 declared    | 502         |   6   |    7     |
//! | `misuse/cycle-4`     | same, 4 declared nodes (quick: binds start switched on)    | 1241 (2482) |   4   |    6     |
//! | `misuse/cross`       | bind returning a node of another state, <=3 (4) nodes      | 258         |   5   |    6     |
//! | `misuse/nested`      | stabilise from map fn / on_update / subscription handler   | 218         |   5   |    6     |
//!
//! `hx dev` always uses the quick tier: append `+thorough` to a family name to get the
//! thorough program set there (`height/ctor+thorough`); `height/ctor@N` / `misuse/cycle-4@n`
//! restrict a family to one N / node count (development aids).
//!
//! All families are explored with digest pruning (closures are pure functions of values printed
//! in the digest). The drop phase after an expected panic costs one extra action
//! (`Drop(order)`), so depth d judges drops after panics at depth <= d-1.
//!
//! Rules: C19.accepts, C19.rejects, C19.message, C19.when, C19.shrink_panics,
//! C19.shrink_below_in_use (a set_max_height_allowed below the greatest height in use returned
//! normally; a refused call must also leave the state unchanged - judged by the rules above
//! on the rest of the history, signatures then carry `+refused-setmax`), C19.cycle,
//! C19.cross_state, C19.nested_stabilise, C19.drop_after_panic, C19.panic (panic in a
//! well-formed, unlimited part of a history, including the twin).
//!
//! Hangs and stack overflows cannot be caught in-process: the explorer marks every history
//! before executing it (`Marker`), the worker's 30 s watchdog / the supervisor attribute them.
//!
//! Entry points used by `plan.rs` (keep these four signatures).

mod height;
mod misuse;

use crate::core::{Cfg, Violation};
use crate::explore::{Marker, Stats};
use crate::plan::{JobDef, Tier};
use height::{HProg, HeightWorld};
use misuse::{MProg, MisuseWorld};
use serde_json::Value as Json;
use std::cell::RefCell;
use std::collections::HashMap;
use std::rc::Rc;
use std::time::Instant;

thread_local! {
    static HCACHE: RefCell<HashMap<String, Rc<Vec<HProg>>>> = RefCell::new(HashMap::new());
    static MCACHE: RefCell<HashMap<String, Rc<Vec<MProg>>>> = RefCell::new(HashMap::new());
}

fn is_height(family: &str) -> bool {
    family.starts_with("height/")
}

/// `hx dev` always runs the quick tier; a family name ending in `+thorough` selects the
/// thorough program set there (development aid; plans pass the tier instead).
fn split_tier(family: &str, tier: Tier) -> (&str, Tier) {
    match family.strip_suffix("+thorough") {
        Some(f) => (f, Tier::Thorough),
        None => (family, tier),
    }
}

fn hprogs(job: &JobDef, tier: Tier) -> Rc<Vec<HProg>> {
    let key = format!("{}/{}", job.family, tier.name());
    if let Some(p) = HCACHE.with(|c| c.borrow().get(&key).cloned()) {
        return p;
    }
    let (fam, tier) = split_tier(&job.family, tier);
    let p = Rc::new(height::family(fam, tier));
    HCACHE.with(|c| c.borrow_mut().insert(key, p.clone()));
    p
}

fn mprogs(job: &JobDef, tier: Tier) -> Rc<Vec<MProg>> {
    let key = format!("{}/{}", job.family, tier.name());
    if let Some(p) = MCACHE.with(|c| c.borrow().get(&key).cloned()) {
        return p;
    }
    let (fam, tier) = split_tier(&job.family, tier);
    let p = Rc::new(misuse::family(fam, tier));
    MCACHE.with(|c| c.borrow_mut().insert(key, p.clone()));
    p
}

pub fn units(job: &JobDef, tier: Tier) -> usize {
    if is_height(&job.family) {
        crate::driver::units::<HeightWorld>(&hprogs(job, tier), job)
    } else {
        crate::driver::units::<MisuseWorld>(&mprogs(job, tier), job)
    }
}

pub fn run_unit(job: &JobDef, job_ix: u32, unit: usize, tier: Tier, deadline: Option<Instant>, marker: &Marker, stats: &mut Stats) {
    if is_height(&job.family) {
        crate::driver::run_unit::<HeightWorld>(&hprogs(job, tier), job, job_ix, unit, deadline, marker, stats)
    } else {
        crate::driver::run_unit::<MisuseWorld>(&mprogs(job, tier), job, job_ix, unit, deadline, marker, stats)
    }
}

pub fn replay(cfg: &Cfg, prog: &Json, history: &[Json]) -> Result<(Vec<(usize, Violation)>, Vec<String>, u64), String> {
    if prog.get("world").and_then(|w| w.as_str()) == Some("height") {
        crate::driver::replay::<HeightWorld>(cfg, prog, history)
    } else {
        crate::driver::replay::<MisuseWorld>(cfg, prog, history)
    }
}

pub fn history_from_choices(job: &JobDef, unit: usize, tier: Tier, choices: &[u16]) -> Option<(Json, Vec<Json>)> {
    if is_height(&job.family) {
        crate::driver::history_from_choices::<HeightWorld>(&hprogs(job, tier), job, unit, choices)
    } else {
        crate::driver::history_from_choices::<MisuseWorld>(&mprogs(job, tier), job, unit, choices)
    }
}

#[cfg(test)]
mod tests {
    use super::*;
    use crate::core::World;

    fn cfg() -> Cfg {
        Cfg { profile: crate::core::profile(), handler_order: Some(true), armed: vec![] }
    }

    /// programs and actions survive the JSON round trip and `replay` executes them
    #[test]
    fn json_round_trip_and_replay() {
        crate::core::install_panic_hook();
        for fam in ["height/ctor@2", "height/default"] {
            let progs = height::family(fam, Tier::Quick);
            assert!(!progs.is_empty());
            for p in progs.iter().take(40) {
                let j = HeightWorld::prog_json(p);
                let back = HeightWorld::prog_from_json(&j).expect("prog parses");
                assert_eq!(HeightWorld::prog_json(&back), j);
                let mut w = HeightWorld::new(p, &cfg());
                let mut hist = vec![];
                for _ in 0..5 {
                    let acts = w.enabled();
                    let Some(a) = acts.last().cloned() else { break };
                    let aj = HeightWorld::action_json(&a);
                    assert_eq!(HeightWorld::action_from_json(&aj), Some(a.clone()));
                    hist.push(aj);
                    let _ = w.step(&a, true);
                    if w.dead() {
                        break;
                    }
                }
                w.teardown();
                let (_, explain, _) = replay(&cfg(), &j, &hist).expect("replay works");
                assert!(!explain.is_empty() || hist.is_empty());
            }
        }
        for fam in ["misuse/cycle-small", "misuse/cross", "misuse/nested"] {
            let progs = misuse::family(fam, Tier::Quick);
            assert!(!progs.is_empty());
            for p in progs.iter().step_by(7) {
                let j = MisuseWorld::prog_json(p);
                let back = MisuseWorld::prog_from_json(&j).expect("prog parses");
                assert_eq!(MisuseWorld::prog_json(&back), j);
                let mut w = MisuseWorld::new(p, &cfg());
                let mut hist = vec![];
                for i in 0..5 {
                    let acts = w.enabled();
                    if acts.is_empty() {
                        break;
                    }
                    let a = acts[(i * 3 + 1) % acts.len()].clone();
                    let aj = MisuseWorld::action_json(&a);
                    assert_eq!(MisuseWorld::action_from_json(&aj), Some(a.clone()));
                    hist.push(aj);
                    let _ = w.step(&a, true);
                    if w.dead() {
                        break;
                    }
                }
                w.teardown();
                replay(&cfg(), &j, &hist).expect("replay works");
            }
        }
    }

    /// the reference model of the misuse world on the three textbook programs
    #[test]
    fn textbook_misuse_panics() {
        crate::core::install_panic_hook();
        use misuse::*;
        let run = |nodes: Vec<MNode>, hist: Vec<MAct>| -> Vec<String> {
            let p = MProg { nodes, vars: [1, 1], sub_handler: true };
            let (vs, explain, _) = crate::explore::run_history::<MisuseWorld>(&p, &cfg(), &hist);
            assert!(vs.is_empty(), "{vs:?}");
            explain
        };
        // let b = v.bind(|x| if x { m } else { c }); m = b.map(..)
        let e = run(
            vec![MNode::Bind { lhs: Src::Var(0), on: Target::Node(1) }, MNode::Map(Src::Node(0))],
            vec![MAct::Observe(1), MAct::Stabilise, MAct::Drop(0)],
        );
        assert!(e[1].contains("Cycle reachable: panic"), "{e:?}");
        assert!(e[2].contains("ok"), "{e:?}");
        let e = run(vec![MNode::Bind { lhs: Src::Var(0), on: Target::Foreign(0) }], vec![MAct::Observe(0), MAct::Stabilise, MAct::Drop(1)]);
        assert!(e[1].contains("Cross reachable: panic"), "{e:?}");
        let e = run(vec![MNode::Map(Src::Var(0))], vec![MAct::Observe(0), MAct::SubscribeStab(0), MAct::Stabilise, MAct::Drop(3)]);
        assert!(e[2].contains("NestedSub reachable: panic"), "{e:?}");
    }
}
