//! C19, misuse: dependency cycles closed through binds, bind right-hand sides of another state,
//! `stabilise` called from a node function / update handler / subscription handler.
//!
//! Programs are lists of <= 4 nodes over two variables `v0`, `v1` (values 0/1) and a constant
//! (1). A bind is "on" when its left-hand side is non-zero and then returns its target - a node
//! that may be defined *later* (late binding through a slot table filled after construction),
//! a node freshly built inside the closure over such a node, or a node of another state;
//! otherwise it returns the constant.
//!
//! Reference: from-scratch evaluation from the observed nodes with the variables' current
//! values. It yields the misuse that is reachable (`Cycle`, `Cross`, `Nested`) or none. Programs
//! of a family contain one kind of misuse only, so no evaluation order is baked in.
//!
//! * misuse reachable  => this stabilise must panic (`C19.cycle` - message must contain
//!   "cyclic" -, `C19.cross_state`, `C19.nested_stabilise`); then only dropping is judged
//!   (`C19.drop_after_panic`, four drop orders as separate actions).
//! * none reachable    => no panic (`C19.panic`).
//!
//! Values are not judged here (C01 does that); they only feed the observation hash.

use crate::core::*;
use crate::plan::Tier;
use incremental::{Incr, IncrState, Observer, Var};
use serde_json::{json, Value as Json};
use std::cell::RefCell;
use std::rc::Rc;

const DROP_ORDERS: u8 = 4;

#[derive(Clone, Debug, PartialEq)]
pub enum Src {
    Var(u8),
    Const,
    Node(u8),
}

#[derive(Clone, Debug, PartialEq)]
pub enum Target {
    /// an existing node, possibly defined after the bind
    Node(u8),
    /// `node.map(..)` built inside the closure
    FreshMap(u8),
    /// `node.map(|x| { stabilise(); x })` built inside the closure
    FreshStab(u8),
    /// a node of another state: 0 = var, 1 = constant, 2 = map over the var
    Foreign(u8),
    /// like `FreshMap`, and the fresh node is also put into the export table under this bind's index: a side
    /// channel through which a node created on this bind's right-hand side reaches another bind (after seed C19-d)
    FreshExport(u8),
    /// the node bind `b` exported last (the constant while it has exported nothing)
    Exported(u8),
}

#[derive(Clone, Debug, PartialEq)]
pub enum MNode {
    Map(Src),
    Map2(Src, Src),
    Bind { lhs: Src, on: Target },
    /// map whose function calls `stabilise`
    MapStab(Src),
    /// map with an `on_update` handler that calls `stabilise`
    MapUpd(Src),
}

#[derive(Clone, Debug)]
pub struct MProg {
    pub nodes: Vec<MNode>,
    pub vars: [u8; 2],
    /// SubscribeStab actions enabled
    pub sub_handler: bool,
    /// nodes observed from the start (exporting binds: a node handed out of a bind may only be used while that
    /// bind is needed, DESIGN §8)
    pub pre_observed: Vec<u8>,
}

#[derive(Clone, Debug, PartialEq)]
pub enum MAct {
    Observe(u8),
    SetVar(u8, u8),
    Stabilise,
    /// subscribe a handler that calls `stabilise` to the observer of node i
    SubscribeStab(u8),
    Drop(u8),
}

#[derive(Clone, Copy, Debug, PartialEq)]
enum Ev {
    /// which node an `Exported` target yields depends on the order in which two bind closures run in this very
    /// stabilise: any outcome is accepted
    Ambiguous,
    Cycle,
    Cross,
    NestedFn,
    NestedUpd,
    NestedSub,
}

type Slots = Rc<RefCell<Vec<Option<Incr<u8>>>>>;
type Exports = Rc<RefCell<Vec<Option<(u32, Incr<u8>)>>>>;

thread_local! {
    /// runs of the closures of exporting / importing binds: (bind index, left-hand value, generation exported or
    /// fetched). The side channel makes what an importing bind holds depend on *when* its closure ran, which no
    /// from-scratch evaluation can know; the reference adopts these facts after every completed stabilise.
    static BIND_LOG: RefCell<Vec<(usize, u8, Option<u32>)>> = RefCell::new(vec![]);
}

struct Real {
    state: Option<IncrState>,
    other: Option<IncrState>,
    vars: Vec<Var<u8>>,
    foreign_var: Option<Var<u8>>,
    konst: Option<Incr<u8>>,
    foreign: Vec<Incr<u8>>,
    nodes: Vec<Incr<u8>>,
    slots: Slots,
    /// export table (see `Target::FreshExport`), indexed by the exporting bind's node index: (generation, node)
    exports: Exports,
    obs: Vec<Option<Observer<u8>>>,
}

thread_local! {
    /// > 0 while a `stabilise` issued from inside a node function / handler is on the stack
    static NESTED: std::cell::Cell<u32> = std::cell::Cell::new(0);
    /// a node function or bind closure ran while such a nested call was on the stack: it *computed values*
    /// instead of panicking at once (added after seed C19-c)
    static COMPUTED_IN_NESTED: std::cell::Cell<bool> = std::cell::Cell::new(false);
}

/// called at the start of every node function / bind closure of this world
fn touch() {
    if NESTED.with(|n| n.get()) > 0 {
        COMPUTED_IN_NESTED.with(|c| c.set(true));
    }
}

fn stab(ws: &incremental::WeakState) {
    if let Some(s) = ws.upgrade() {
        struct Leave;
        impl Drop for Leave {
            fn drop(&mut self) {
                NESTED.with(|n| n.set(n.get().saturating_sub(1)));
            }
        }
        NESTED.with(|n| n.set(n.get() + 1));
        let _leave = Leave;
        s.stabilise();
    }
}

/// Update handlers first write every variable (so that there is pending work) and then call `stabilise`.
fn write_and_stab(vars: &[Var<u8>], ws: &incremental::WeakState) {
    for v in vars {
        v.set(1 - v.get().min(1));
    }
    stab(ws)
}

impl Real {
    fn build(prog: &MProg) -> Real {
        let state = IncrState::new();
        let vars: Vec<Var<u8>> = prog.vars.iter().map(|d| state.var(*d)).collect();
        let konst = state.constant(1u8);
        let needs_other = prog.nodes.iter().any(|n| matches!(n, MNode::Bind { on: Target::Foreign(_), .. }));
        let (other, foreign_var, foreign) = if needs_other {
            let o = IncrState::new();
            let fv = o.var(7u8);
            let f = vec![fv.watch(), o.constant(8u8), fv.map(|x| x.wrapping_add(1))];
            (Some(o), Some(fv), f)
        } else {
            (None, None, vec![])
        };
        let slots: Slots = Rc::new(RefCell::new(vec![None; prog.nodes.len()]));
        let exports: Exports = Rc::new(RefCell::new(vec![None; prog.nodes.len()]));
        let mut nodes: Vec<Incr<u8>> = vec![];
        let src = |s: &Src, nodes: &Vec<Incr<u8>>| -> Incr<u8> {
            match s {
                Src::Var(k) => vars[*k as usize].watch(),
                Src::Const => konst.clone(),
                Src::Node(i) => nodes[*i as usize].clone(),
            }
        };
        for n in prog.nodes.iter() {
            let incr = match n {
                MNode::Map(a) => src(a, &nodes).map(|x| {
                    touch();
                    x.wrapping_mul(2)
                }),
                MNode::Map2(a, b) => {
                    let (a, b) = (src(a, &nodes), src(b, &nodes));
                    a.map2(&b, |x, y| {
                        touch();
                        x.wrapping_add(*y)
                    })
                }
                MNode::MapStab(a) => {
                    let ws = state.weak();
                    src(a, &nodes).map(move |x| {
                        touch();
                        stab(&ws);
                        *x
                    })
                }
                MNode::MapUpd(a) => {
                    let ws = state.weak();
                    let m = src(a, &nodes).map(|x| {
                        touch();
                        x.wrapping_mul(2)
                    });
                    // a handler may own Var handles (they are not observers)
                    let hv = vars.clone();
                    m.on_update(move |_| write_and_stab(&hv, &ws));
                    m
                }
                MNode::Bind { lhs, on } => {
                    let slots = slots.clone();
                    let exports = exports.clone();
                    let my_index = nodes.len();
                    let konst = konst.clone();
                    let foreign = foreign.clone();
                    let on = on.clone();
                    let ws = state.weak();
                    let logs_runs = matches!(on, Target::FreshExport(_) | Target::Exported(_));
                    src(lhs, &nodes).bind(move |x: &u8| {
                        touch();
                        if *x == 0 {
                            if logs_runs {
                                BIND_LOG.with(|l| l.borrow_mut().push((my_index, 0, None)));
                            }
                            return konst.clone();
                        }
                        let slot = |j: u8| slots.borrow()[j as usize].clone().expect("slot filled before the first stabilise");
                        match &on {
                            Target::Node(j) => slot(*j),
                            Target::FreshMap(j) => slot(*j).map(|x| {
                                touch();
                                x.wrapping_mul(2)
                            }),
                            Target::FreshStab(j) => {
                                let ws = ws.clone();
                                slot(*j).map(move |x| {
                                    touch();
                                    stab(&ws);
                                    *x
                                })
                            }
                            Target::Foreign(k) => foreign[*k as usize].clone(),
                            Target::FreshExport(j) => {
                                let n = slot(*j).map(|x| {
                                    touch();
                                    x.wrapping_mul(2)
                                });
                                let gen = exports.borrow()[my_index].as_ref().map_or(0, |(g, _)| *g) + 1;
                                exports.borrow_mut()[my_index] = Some((gen, n.clone()));
                                BIND_LOG.with(|l| l.borrow_mut().push((my_index, *x, Some(gen))));
                                n
                            }
                            Target::Exported(b) => {
                                let got = exports.borrow()[*b as usize].clone();
                                BIND_LOG.with(|l| l.borrow_mut().push((my_index, *x, got.as_ref().map(|(g, _)| *g))));
                                got.map(|(_, n)| n).unwrap_or_else(|| konst.clone())
                            }
                        }
                    })
                }
            };
            slots.borrow_mut()[nodes.len()] = Some(incr.clone());
            nodes.push(incr);
        }
        let n = nodes.len();
        Real {
            state: Some(state),
            other,
            vars,
            foreign_var,
            konst: Some(konst),
            foreign,
            nodes,
            slots,
            exports,
            obs: (0..n).map(|_| None).collect(),
        }
    }

    fn drop_in_order(self, order: u8) {
        let Real { state, other, vars, foreign_var, konst, foreign, nodes, slots, exports, obs } = self;
        let states = (state, other);
        let vars = (vars, foreign_var);
        let drop_nodes = move || {
            slots.borrow_mut().clear();
            drop(slots);
            exports.borrow_mut().clear();
            drop(exports);
            drop(nodes);
            drop(konst);
            drop(foreign);
        };
        match order {
            0 => {
                drop(obs);
                drop_nodes();
                drop(vars);
                drop(states);
            }
            1 => {
                drop(states);
                drop(vars);
                drop_nodes();
                drop(obs);
            }
            2 => {
                drop_nodes();
                drop(vars);
                drop(obs);
                drop(states);
            }
            _ => {
                drop(states);
                drop(obs);
                drop_nodes();
                drop(vars);
            }
        }
    }
}

pub struct MisuseWorld {
    prog: MProg,
    real: Option<Real>,
    vars: [u8; 2],
    observed: Vec<bool>,
    subs: Vec<u8>,
    /// nodes the last completed stabilise needed (reference model)
    prev_needed: Vec<bool>,
    /// variable values at the last completed stabilise
    old_vars: [u8; 2],
    /// per exporting / importing bind: its closure's last run as logged (left-hand value, generation exported /
    /// fetched); None = has not run yet
    bind_run: Vec<Option<(u8, Option<u32>)>>,
    poisoned: bool,
    dead: bool,
    obs_hash: u64,
    counters: Counters,
    explain: String,
}

fn v(rule: &'static str, sig: impl Into<String>, detail: impl Into<String>) -> Violation {
    Violation::new("C19", rule, sig, detail)
}

impl MisuseWorld {
    fn note(&mut self, k: &'static str) {
        *self.counters.entry(k).or_insert(0) += 1;
    }
    fn mix(&mut self, s: &str) {
        self.obs_hash = hash64(&(self.obs_hash, s));
    }

    fn src_val(&self, vars: &[u8; 2], s: &Src, stack: &mut Vec<u8>, seen: &mut Vec<bool>) -> Result<u8, Ev> {
        match s {
            Src::Var(k) => Ok(vars[*k as usize]),
            Src::Const => Ok(1),
            Src::Node(i) => self.val(vars, *i, stack, seen),
        }
    }

    /// from-scratch value of node `i` under the variable values `vars`, or the misuse met on
    /// the way; `seen` collects the nodes the evaluation needs
    fn val(&self, vars: &[u8; 2], i: u8, stack: &mut Vec<u8>, seen: &mut Vec<bool>) -> Result<u8, Ev> {
        if stack.contains(&i) {
            return Err(Ev::Cycle);
        }
        seen[i as usize] = true;
        stack.push(i);
        let r = (|| match &self.prog.nodes[i as usize] {
            MNode::Map(a) => Ok(self.src_val(vars, a, stack, seen)?.wrapping_mul(2)),
            MNode::Map2(a, b) => {
                let x = self.src_val(vars, a, stack, seen)?;
                let y = self.src_val(vars, b, stack, seen)?;
                Ok(x.wrapping_add(y))
            }
            MNode::MapStab(a) => {
                self.src_val(vars, a, stack, seen)?;
                Err(Ev::NestedFn)
            }
            MNode::MapUpd(a) => {
                self.src_val(vars, a, stack, seen)?;
                Err(Ev::NestedUpd)
            }
            MNode::Bind { lhs, on } => {
                let l = self.src_val(vars, lhs, stack, seen)?;
                if l == 0 {
                    return Ok(1);
                }
                match on {
                    Target::Node(j) => self.val(vars, *j, stack, seen),
                    Target::FreshMap(j) => Ok(self.val(vars, *j, stack, seen)?.wrapping_mul(2)),
                    Target::FreshStab(j) => {
                        self.val(vars, *j, stack, seen)?;
                        Err(Ev::NestedFn)
                    }
                    Target::Foreign(_) => Err(Ev::Cross),
                    Target::FreshExport(j) => Ok(self.val(vars, *j, stack, seen)?.wrapping_mul(2)),
                    Target::Exported(b) => {
                        let MNode::Bind { lhs: blhs, on: Target::FreshExport(j) } = &self.prog.nodes[*b as usize] else { return Ok(1) };
                        let exp = self.bind_run[*b as usize];
                        let will_rerun = self.bind_run[i as usize].map_or(true, |(lv, _)| lv != l);
                        if !will_rerun {
                            // the closure keeps what it fetched at its last run
                            let Some((_, Some(g))) = self.bind_run[i as usize] else { return Ok(1) };
                            let Some((blv, Some(bg))) = exp else { return Ok(1) };
                            if bg != g {
                                return Ok(1); // an export that b has replaced (and invalidated) since
                            }
                            // scope edge: the exported node lives above b's left-hand side
                            let bl = self.src_val(vars, blhs, stack, seen)?;
                            if bl != blv {
                                return Ok(1); // b re-runs in this stabilise and invalidates it
                            }
                            return Ok(self.val(vars, *j, stack, seen)?.wrapping_mul(2));
                        }
                        // the closure runs in this stabilise and fetches what the table holds at that moment
                        let Some((blv, bgen)) = exp else { return Err(Ev::Ambiguous) };
                        match self.src_val(vars, blhs, &mut stack.clone(), &mut seen.clone()) {
                            Err(Ev::Cycle) => {
                                // b's input depends on this bind: b cannot run before this closure has returned
                                if blv != 0 && bgen.is_some() {
                                    Err(Ev::Cycle) // it returns b's current export, which lives above b's input: a cycle
                                } else {
                                    Ok(1)
                                }
                            }
                            Err(e) => Err(e),
                            Ok(bl) if bl != blv => Err(Ev::Ambiguous), // b re-runs too: the order decides
                            Ok(_) => {
                                if blv == 0 || bgen.is_none() {
                                    return Ok(1);
                                }
                                self.src_val(vars, blhs, stack, seen)?;
                                Ok(self.val(vars, *j, stack, seen)?.wrapping_mul(2))
                            }
                        }
                    }
                }
            }
        })();
        stack.pop();
        r
    }

    /// Slack analysis: can a misuse be met in the *union* of the dependency graph as it was after
    /// the last completed stabilise (variable values `old_vars`) and as it is from scratch now,
    /// starting from the observed nodes and from every node needed until now? A node that was
    /// needed up to now may be recomputed once more before the engine learns that it is no longer
    /// needed (a bind above it switches away in the same stabilise), and it then meets edges of
    /// binds that have not switched yet. Over-approximation: it only widens what is accepted.
    fn may_misuse(&self) -> bool {
        let n = self.prog.nodes.len();
        let nonzero_possible = |s: &Src| -> bool {
            [self.old_vars, self.vars].iter().any(|vars| match self.src_val(vars, s, &mut vec![], &mut vec![false; n]) {
                Ok(x) => x != 0,
                Err(_) => true,
            })
        };
        // union edges
        let mut adj: Vec<Vec<usize>> = vec![vec![]; n];
        let mut bad = vec![false; n];
        for (i, node) in self.prog.nodes.iter().enumerate() {
            let mut push = |s: &Src| {
                if let Src::Node(j) = s {
                    adj[i].push(*j as usize);
                }
            };
            match node {
                MNode::Map(a) => push(a),
                MNode::Map2(a, b) => {
                    push(a);
                    push(b);
                }
                MNode::MapStab(a) | MNode::MapUpd(a) => {
                    push(a);
                    bad[i] = true;
                }
                MNode::Bind { lhs, on } => {
                    push(lhs);
                    if nonzero_possible(lhs) {
                        match on {
                            Target::Node(j) | Target::FreshMap(j) | Target::FreshExport(j) | Target::Exported(j) => adj[i].push(*j as usize),
                            Target::FreshStab(j) => {
                                adj[i].push(*j as usize);
                                bad[i] = true;
                            }
                            Target::Foreign(_) => bad[i] = true,
                        }
                    }
                }
            }
        }
        // reachable set, then: a bad node or any cycle inside it
        let mut reach = vec![false; n];
        let mut todo: Vec<usize> = (0..n).filter(|i| self.observed[*i] || self.prev_needed[*i]).collect();
        while let Some(i) = todo.pop() {
            if !reach[i] {
                reach[i] = true;
                todo.extend(adj[i].iter().copied());
            }
        }
        if (0..n).any(|i| reach[i] && bad[i]) {
            return true;
        }
        // cycle among reachable nodes (colours: 0 new, 1 on stack, 2 done)
        fn dfs(i: usize, adj: &Vec<Vec<usize>>, col: &mut Vec<u8>) -> bool {
            col[i] = 1;
            for &c in adj[i].iter() {
                if col[c] == 1 || (col[c] == 0 && dfs(c, adj, col)) {
                    return true;
                }
            }
            col[i] = 2;
            false
        }
        let mut col = vec![0u8; n];
        (0..n).any(|i| reach[i] && col[i] == 0 && dfs(i, &adj, &mut col))
    }

    /// (misuse that from-scratch evaluation of the observed nodes must meet, the nodes that
    /// evaluation needs)
    fn expected(&self) -> (Option<Ev>, Vec<bool>) {
        let n = self.prog.nodes.len();
        let mut seen = vec![false; n];
        let mut must = None;
        for (i, o) in self.observed.iter().enumerate() {
            if *o && must.is_none() {
                if let Err(e) = self.val(&self.vars, i as u8, &mut vec![], &mut seen) {
                    must = Some(e);
                }
            }
        }
        if must.is_none() && !self.subs.is_empty() {
            must = Some(Ev::NestedSub);
        }
        (must, seen)
    }
}

impl World for MisuseWorld {
    type Prog = MProg;
    type Action = MAct;

    fn new(prog: &MProg, _cfg: &Cfg) -> Self {
        let pre = prog.pre_observed.clone();
        let real = catch(|| {
            let mut r = Real::build(prog);
            for i in pre.iter() {
                r.obs[*i as usize] = Some(r.nodes[*i as usize].observe());
            }
            r
        })
        .ok();
        let dead = real.is_none();
        let mut observed = vec![false; prog.nodes.len()];
        for i in prog.pre_observed.iter() {
            observed[*i as usize] = true;
        }
        MisuseWorld {
            prog: prog.clone(),
            real,
            vars: prog.vars,
            observed,
            subs: vec![],
            prev_needed: vec![false; prog.nodes.len()],
            old_vars: prog.vars,
            bind_run: vec![None; prog.nodes.len()],
            poisoned: false,
            dead,
            obs_hash: 0,
            counters: Counters::new(),
            explain: String::new(),
        }
    }

    fn enabled(&self) -> Vec<MAct> {
        let mut out = vec![];
        if self.dead {
            return out;
        }
        if self.poisoned {
            for k in 0..DROP_ORDERS {
                out.push(MAct::Drop(k));
            }
            return out;
        }
        out.push(MAct::Stabilise);
        for (i, o) in self.observed.iter().enumerate() {
            if !*o {
                out.push(MAct::Observe(i as u8));
            }
        }
        for k in 0..2u8 {
            if self.uses_var(k) {
                out.push(MAct::SetVar(k, 1 - self.vars[k as usize]));
            }
        }
        if self.prog.sub_handler {
            for (i, o) in self.observed.iter().enumerate() {
                if *o && !self.subs.contains(&(i as u8)) {
                    out.push(MAct::SubscribeStab(i as u8));
                }
            }
        }
        out
    }

    fn step(&mut self, a: &MAct, check: bool) -> Vec<Violation> {
        let mut vs = vec![];
        self.explain.clear();
        match a {
            MAct::Drop(order) => {
                let real = self.real.take().unwrap();
                let order = *order;
                let r = catch(move || real.drop_in_order(order));
                self.note("drop_after_panic_judged");
                match r {
                    Ok(()) => {
                        self.explain = format!("dropped everything in order {order}: ok");
                        self.mix("drop ok");
                    }
                    Err(p) => {
                        self.explain = format!("drop order {order} PANIC at {}: {}", p.short_location(), p.first_line());
                        self.mix("drop panic");
                        if check {
                            vs.push(v(
                                "C19.drop_after_panic",
                                format!("order{order}@{}", p.short_location()),
                                format!("after the expected misuse panic, dropping the handles in order {order} panicked at {}: {}", p.short_location(), p.first_line()),
                            ));
                        }
                    }
                }
                self.dead = true;
            }
            MAct::Observe(_) | MAct::SetVar(..) | MAct::SubscribeStab(_) => {
                let real = self.real.as_mut().unwrap();
                let r = catch(|| match a {
                    MAct::Observe(i) => {
                        let o = real.nodes[*i as usize].observe();
                        real.obs[*i as usize] = Some(o);
                        true
                    }
                    MAct::SetVar(k, d) => {
                        real.vars[*k as usize].set(*d);
                        true
                    }
                    MAct::SubscribeStab(i) => {
                        let ws = real.state.as_ref().unwrap().weak();
                        let hv = real.vars.clone();
                        real.obs[*i as usize].as_ref().unwrap().try_subscribe(move |_| write_and_stab(&hv, &ws)).is_ok()
                    }
                    _ => unreachable!(),
                });
                match r {
                    Ok(took) => {
                        match a {
                            MAct::Observe(i) => self.observed[*i as usize] = true,
                            MAct::SetVar(k, d) => self.vars[*k as usize] = *d,
                            MAct::SubscribeStab(i) => {
                                if took {
                                    self.subs.push(*i)
                                }
                            }
                            _ => {}
                        }
                        self.explain = format!("{a:?} ok");
                        self.mix(&format!("{a:?} {took}"));
                    }
                    Err(p) => {
                        self.explain = format!("PANIC at {}: {}", p.short_location(), p.first_line());
                        if check {
                            let kind = format!("{a:?}");
                            let kind = kind.split('(').next().unwrap_or("").to_string();
                            vs.push(v("C19.panic", format!("{kind}@{}", p.short_location()), format!("{a:?} panicked at {}: {}", p.short_location(), p.first_line())));
                        }
                        self.dead = true;
                    }
                }
            }
            MAct::Stabilise => {
                let (exp, needed) = self.expected();
                let may = exp.is_none() && !self.prev_needed.iter().all(|x| !*x) && self.may_misuse();
                NESTED.with(|n| n.set(0));
                COMPUTED_IN_NESTED.with(|c| c.set(false));
                BIND_LOG.with(|l| l.borrow_mut().clear());
                let r = {
                    let real = self.real.as_ref().unwrap();
                    catch(|| real.state.as_ref().unwrap().stabilise())
                };
                NESTED.with(|n| n.set(0));
                if COMPUTED_IN_NESTED.with(|c| c.get()) {
                    self.note("nested_stabilise_ran_node_functions");
                    if check {
                        vs.push(v(
                            "C19.nested_stabilise",
                            format!("computed:{}", exp.map_or("?".to_string(), |e| format!("{e:?}"))),
                            "a stabilise called from inside a node function / update handler ran node functions (computed values) instead of panicking at once".to_string(),
                        ));
                    }
                }
                // `Ambiguous`: which node an Exported target yields depends on the order of two closures: nothing is demanded
                let ambiguous = exp == Some(Ev::Ambiguous);
                let exp = if ambiguous { None } else { exp };
                let may = may || ambiguous;
                if ambiguous {
                    self.note("unjudged_round_export_order_dependent");
                }
                match (exp, r) {
                    (None, Ok(())) => {
                        // adopt what the closures of exporting / importing binds did in this stabilise
                        for (b, x, g) in BIND_LOG.with(|l| std::mem::take(&mut *l.borrow_mut())) {
                            self.bind_run[b] = Some((x, g));
                        }
                        let real = self.real.as_ref().unwrap();
                        let reads: Vec<String> = real.obs.iter().map(|o| o.as_ref().map(|o| format!("{:?}", o.try_get_value().ok())).unwrap_or_default()).collect();
                        self.explain = format!("no misuse reachable, stabilise ok, reads {reads:?}");
                        self.note("clean_stabilise");
                        self.mix(&format!("{reads:?}"));
                        self.prev_needed = needed;
                        self.old_vars = self.vars;
                    }
                    (None, Err(p)) if may => {
                        // slack: misuse reachable only through a node that was needed until now
                        self.explain = format!("misuse reachable only through nodes / edges needed before this stabilise: panic (allowed) at {}: {}", p.short_location(), p.first_line());
                        self.note("unjudged_panic_through_previously_needed_node");
                        self.mix("allowed panic");
                        self.poisoned = true;
                    }
                    (None, Err(p)) => {
                        self.explain = format!("no misuse reachable but PANIC at {}: {}", p.short_location(), p.first_line());
                        if check {
                            vs.push(v(
                                "C19.panic",
                                format!("Stabilise@{}", p.short_location()),
                                format!("no cycle / foreign node / nested stabilise is reachable from the observed nodes, yet stabilise panicked at {}: {}", p.short_location(), p.first_line()),
                            ));
                        }
                        self.dead = true;
                    }
                    (Some(ev), Ok(())) => {
                        self.explain = format!("{ev:?} reachable but stabilise returned normally");
                        if check {
                            let (rule, what): (&'static str, &str) = match ev {
                                Ev::Cycle => ("C19.cycle", "a dependency cycle was closed"),
                                Ev::Cross => ("C19.cross_state", "a bind returned a node of another state"),
                                Ev::NestedFn => ("C19.nested_stabilise", "a node function called stabilise"),
                                Ev::NestedUpd => ("C19.nested_stabilise", "an on_update handler called stabilise"),
                                Ev::NestedSub => ("C19.nested_stabilise", "a subscription handler called stabilise"),
                                Ev::Ambiguous => unreachable!(),
                            };
                            vs.push(v(rule, format!("no_panic:{ev:?}"), format!("{what} during this stabilise, which returned normally instead of panicking")));
                        }
                        self.dead = true;
                    }
                    (Some(ev), Err(p)) => {
                        self.explain = format!("{ev:?} reachable: panic at {}: {}", p.short_location(), p.first_line());
                        self.mix(&format!("{ev:?} panic"));
                        match ev {
                            Ev::Cycle => self.note("cycle_panics"),
                            Ev::Cross => self.note("cross_state_panics"),
                            Ev::NestedFn => self.note("nested_fn_panics"),
                            Ev::NestedUpd => self.note("nested_on_update_panics"),
                            Ev::NestedSub => self.note("nested_subscription_panics"),
                            Ev::Ambiguous => unreachable!(),
                        }
                        if ev == Ev::Cycle && !p.message.to_ascii_lowercase().contains("cycl") && check {
                            vs.push(v(
                                "C19.cycle",
                                format!("unnamed@{}", p.short_location()),
                                format!("closing a cycle panicked without naming the cycle, at {}: {}", p.short_location(), p.first_line()),
                            ));
                        }
                        self.poisoned = true;
                    }
                }
            }
        }
        vs
    }

    fn canon(&self) -> Option<String> {
        if self.poisoned || self.dead {
            return None;
        }
        let real = self.real.as_ref()?;
        // observer ids are part of the text that is canonicalised, so that "which observer
        // watches which node" is kept (ids are ranked consistently with the dump)
        let mut s = real.state.as_ref()?.verif_dump();
        s.push_str("\n=== harness observers:");
        for (i, o) in real.obs.iter().enumerate() {
            if let Some(o) = o {
                s.push_str(&format!(" n{i}=o{}", o.verif_id()));
            }
        }
        let mut s = canonicalise_dump(&s);
        if let Some(o) = real.other.as_ref() {
            s.push_str("\n=== other\n");
            s.push_str(&canonicalise_dump(&o.verif_dump()));
        }
        s.push_str(&format!("\n=== harness vars={:?} observed={:?} subs={:?} prev_needed={:?} old_vars={:?} bind_run={:?}", self.vars, self.observed, self.subs, self.prev_needed, self.old_vars, self.bind_run));
        Some(s)
    }

    fn dead(&self) -> bool {
        self.dead
    }
    fn observation_hash(&self) -> u64 {
        self.obs_hash
    }
    fn take_counters(&mut self) -> Counters {
        std::mem::take(&mut self.counters)
    }
    fn teardown(mut self) {
        if let Some(r) = self.real.as_ref() {
            // break the harness-made reference cycle closure -> slot table -> node -> closure
            if let Ok(mut s) = r.slots.try_borrow_mut() {
                s.clear();
            }
            if let Ok(mut s) = r.exports.try_borrow_mut() {
                s.clear();
            }
        }
        let real = self.real.take();
        let _ = catch(move || drop(real));
    }

    fn prog_json(p: &MProg) -> Json {
        let src = |s: &Src| match s {
            Src::Var(k) => json!({"var": k}),
            Src::Const => json!("const"),
            Src::Node(i) => json!({"node": i}),
        };
        let nodes: Vec<Json> = p
            .nodes
            .iter()
            .map(|n| match n {
                MNode::Map(a) => json!({"k": "map", "a": src(a)}),
                MNode::Map2(a, b) => json!({"k": "map2", "a": src(a), "b": src(b)}),
                MNode::MapStab(a) => json!({"k": "map_stab", "a": src(a)}),
                MNode::MapUpd(a) => json!({"k": "map_upd", "a": src(a)}),
                MNode::Bind { lhs, on } => {
                    let t = match on {
                        Target::Node(j) => json!({"node": j}),
                        Target::FreshMap(j) => json!({"fresh_map": j}),
                        Target::FreshStab(j) => json!({"fresh_stab": j}),
                        Target::Foreign(k) => json!({"foreign": k}),
                        Target::FreshExport(j) => json!({"fresh_export": j}),
                        Target::Exported(b) => json!({"exported": b}),
                    };
                    json!({"k": "bind", "lhs": src(lhs), "on": t})
                }
            })
            .collect();
        json!({"world": "misuse", "nodes": nodes, "vars": [p.vars[0], p.vars[1]], "sub_handler": p.sub_handler, "pre_observed": p.pre_observed})
    }
    fn prog_from_json(j: &Json) -> Option<MProg> {
        let src = |s: &Json| -> Option<Src> {
            if s.as_str() == Some("const") {
                return Some(Src::Const);
            }
            if let Some(k) = s.get("var").and_then(|x| x.as_u64()) {
                return Some(Src::Var(k as u8));
            }
            s.get("node").and_then(|x| x.as_u64()).map(|i| Src::Node(i as u8))
        };
        let mut nodes = vec![];
        for n in j.get("nodes")?.as_array()? {
            let a = n.get("a").and_then(|a| src(a));
            nodes.push(match n.get("k")?.as_str()? {
                "map" => MNode::Map(a?),
                "map2" => MNode::Map2(a?, src(n.get("b")?)?),
                "map_stab" => MNode::MapStab(a?),
                "map_upd" => MNode::MapUpd(a?),
                "bind" => {
                    let t = n.get("on")?;
                    let g = |k: &str| t.get(k).and_then(|x| x.as_u64()).map(|x| x as u8);
                    let on = if let Some(x) = g("node") {
                        Target::Node(x)
                    } else if let Some(x) = g("fresh_map") {
                        Target::FreshMap(x)
                    } else if let Some(x) = g("fresh_stab") {
                        Target::FreshStab(x)
                    } else if let Some(x) = g("fresh_export") {
                        Target::FreshExport(x)
                    } else if let Some(x) = g("exported") {
                        Target::Exported(x)
                    } else {
                        Target::Foreign(g("foreign")?)
                    };
                    MNode::Bind { lhs: src(n.get("lhs")?)?, on }
                }
                _ => return None,
            });
        }
        let vs = j.get("vars")?.as_array()?;
        Some(MProg {
            nodes,
            vars: [vs.first()?.as_u64()? as u8, vs.get(1)?.as_u64()? as u8],
            sub_handler: j.get("sub_handler")?.as_bool()?,
            pre_observed: j.get("pre_observed").and_then(|v| v.as_array()).map(|a| a.iter().filter_map(|x| x.as_u64().map(|x| x as u8)).collect()).unwrap_or_default(),
        })
    }
    fn action_json(a: &MAct) -> Json {
        match a {
            MAct::Observe(i) => json!({"a": "Observe", "i": i}),
            MAct::SetVar(k, d) => json!({"a": "SetVar", "k": k, "d": d}),
            MAct::Stabilise => json!({"a": "Stabilise"}),
            MAct::SubscribeStab(i) => json!({"a": "SubscribeStab", "i": i}),
            MAct::Drop(k) => json!({"a": "Drop", "order": k}),
        }
    }
    fn action_from_json(j: &Json) -> Option<MAct> {
        let u = |k: &str| j.get(k).and_then(|x| x.as_u64()).map(|x| x as u8);
        Some(match j.get("a")?.as_str()? {
            "Observe" => MAct::Observe(u("i")?),
            "SetVar" => MAct::SetVar(u("k")?, u("d")?),
            "Stabilise" => MAct::Stabilise,
            "SubscribeStab" => MAct::SubscribeStab(u("i")?),
            "Drop" => MAct::Drop(u("order")?),
            _ => return None,
        })
    }
    fn explain_last(&self) -> String {
        self.explain.clone()
    }
}

impl MisuseWorld {
    fn uses_var(&self, k: u8) -> bool {
        let s = Src::Var(k);
        self.prog.nodes.iter().any(|n| match n {
            MNode::Map(a) | MNode::MapStab(a) | MNode::MapUpd(a) => *a == s,
            MNode::Map2(a, b) => *a == s || *b == s,
            MNode::Bind { lhs, .. } => *lhs == s,
        })
    }
}

// ---------------------------------------------------------------------------------------
// program enumeration

#[derive(Clone, Copy, PartialEq)]
enum Menu {
    Cycle,
    Cross,
    Nested,
    Plain,
}

/// children of node i in the graph where every bind is on: (child, edge is a bind's rhs edge
/// through a fresh node)
fn edges(nodes: &[MNode], i: usize) -> Vec<(usize, bool)> {
    let mut out = vec![];
    let mut s = |x: &Src| {
        if let Src::Node(j) = x {
            out.push((*j as usize, false));
        }
    };
    match &nodes[i] {
        MNode::Map(a) | MNode::MapStab(a) | MNode::MapUpd(a) => s(a),
        MNode::Map2(a, b) => {
            s(a);
            s(b);
        }
        MNode::Bind { lhs, on } => {
            s(lhs);
            match on {
                Target::Node(j) => out.push((*j as usize, false)),
                Target::FreshMap(j) | Target::FreshStab(j) | Target::FreshExport(j) => out.push((*j as usize, true)),
                Target::Exported(b) => out.push((*b as usize, true)),
                Target::Foreign(_) => {}
            }
        }
    }
    out
}

/// (some cycle exists, some cycle consists of binds only)
fn cycles(nodes: &[MNode]) -> (bool, bool) {
    let n = nodes.len();
    let mut any = false;
    let mut pure = false;
    // enumerate simple cycles by DFS from each start node (graphs have <= 4 nodes)
    fn dfs(nodes: &[MNode], start: usize, cur: usize, path: &mut Vec<usize>, other: bool, any: &mut bool, pure: &mut bool) {
        for (c, fresh) in edges(nodes, cur) {
            let other2 = other || fresh;
            if c == start {
                *any = true;
                if !other2 {
                    *pure = true;
                }
            } else if !path.contains(&c) && c > start {
                let is_other = !matches!(nodes[c], MNode::Bind { .. });
                path.push(c);
                dfs(nodes, start, c, path, other2 || is_other, any, pure);
                path.pop();
            }
        }
    }
    for s in 0..n {
        let is_other = !matches!(nodes[s], MNode::Bind { .. });
        dfs(nodes, s, s, &mut vec![s], is_other, &mut any, &mut pure);
    }
    (any, pure)
}

fn srcs(i: usize, with_var1: bool) -> Vec<Src> {
    let mut v = vec![Src::Var(0)];
    if with_var1 {
        v.push(Src::Var(1));
    }
    for j in 0..i {
        v.push(Src::Node(j as u8));
    }
    v
}

fn node_options(i: usize, n: usize, menu: Menu, binds_so_far: usize) -> Vec<MNode> {
    let mut out = vec![];
    for a in srcs(i, false) {
        out.push(MNode::Map(a.clone()));
        if menu == Menu::Nested {
            out.push(MNode::MapStab(a.clone()));
            out.push(MNode::MapUpd(a.clone()));
        }
    }
    // map2 over two different sources, at least one of them a node
    let ss = srcs(i, false);
    for (x, a) in ss.iter().enumerate() {
        for b in ss.iter().skip(x + 1) {
            if matches!(a, Src::Node(_)) || matches!(b, Src::Node(_)) {
                out.push(MNode::Map2(a.clone(), b.clone()));
            }
        }
    }
    if binds_so_far < 2 {
        // the k-th bind is switched by variable k, or by an earlier node
        let mut lhss = vec![Src::Var(binds_so_far as u8)];
        for j in 0..i {
            lhss.push(Src::Node(j as u8));
        }
        for lhs in lhss {
            for j in 0..n {
                let forward = j >= i;
                match menu {
                    Menu::Cycle => {
                        if j != i {
                            out.push(MNode::Bind { lhs: lhs.clone(), on: Target::Node(j as u8) });
                        }
                        out.push(MNode::Bind { lhs: lhs.clone(), on: Target::FreshMap(j as u8) });
                    }
                    Menu::Cross | Menu::Plain => {
                        if !forward {
                            out.push(MNode::Bind { lhs: lhs.clone(), on: Target::Node(j as u8) });
                        }
                    }
                    Menu::Nested => {
                        if !forward {
                            out.push(MNode::Bind { lhs: lhs.clone(), on: Target::Node(j as u8) });
                            out.push(MNode::Bind { lhs: lhs.clone(), on: Target::FreshStab(j as u8) });
                        }
                    }
                }
            }
            if menu == Menu::Cross {
                for k in 0..3u8 {
                    out.push(MNode::Bind { lhs: lhs.clone(), on: Target::Foreign(k) });
                }
            }
        }
    }
    out
}

fn gen(n: usize, menu: Menu, prefix: &mut Vec<MNode>, out: &mut Vec<Vec<MNode>>) {
    let i = prefix.len();
    if i == n {
        out.push(prefix.clone());
        return;
    }
    let binds = prefix.iter().filter(|x| matches!(x, MNode::Bind { .. })).count();
    for opt in node_options(i, n, menu, binds) {
        prefix.push(opt);
        gen(n, menu, prefix, out);
        prefix.pop();
    }
}

fn count<F: Fn(&MNode) -> bool>(nodes: &[MNode], f: F) -> usize {
    nodes.iter().filter(|n| f(n)).count()
}

/// every node is used by a later node or is the last node, or is the target of a bind: drops
/// programs with irrelevant passengers
fn connected(nodes: &[MNode]) -> bool {
    let n = nodes.len();
    (0..n).all(|j| j + 1 == n || (0..n).any(|i| i != j && edges(nodes, i).iter().any(|(c, _)| *c == j)))
}

/// `misuse/cycle-small`, `misuse/cycle-4`, `misuse/cross`, `misuse/nested`; a suffix `@n`
/// restricts a cycle family to programs of exactly n declared nodes (development aid). Fresh
/// nodes built inside closures count towards the 4 nodes.
pub fn family(name: &str, tier: Tier) -> Vec<MProg> {
    let thorough = tier == Tier::Thorough;
    let mut out = vec![];
    let (name, only_n) = match name.split_once('@') {
        Some((b, n)) => (b, n.parse::<usize>().ok()),
        None => (name, None),
    };
    match name {
        // cycles that close over a *scope* edge: a node created on one bind's right-hand side reaches another bind
        // through a side channel (hand-written; the exporting bind is observed from the start). Added after seed C19-d.
        "misuse/scope-cycle" => {
            let b = |lhs: Src, on: Target| MNode::Bind { lhs, on };
            let progs: Vec<(Vec<MNode>, Vec<u8>)> = vec![
                // bind2's input depends on bind1 through a map; bind1 switches to the node bind2 exported
                (vec![b(Src::Var(0), Target::Exported(2)), MNode::Map(Src::Node(0)), b(Src::Node(1), Target::FreshExport(3)), MNode::Map(Src::Var(1))], vec![2]),
                // bind2's input is bind1 itself
                (vec![b(Src::Var(0), Target::Exported(1)), b(Src::Node(0), Target::FreshExport(2)), MNode::Map(Src::Var(1))], vec![1]),
                // control: the exporter does not depend on the importing bind (no cycle, no panic)
                (vec![b(Src::Var(0), Target::Exported(1)), b(Src::Var(1), Target::FreshExport(2)), MNode::Map(Src::Var(1))], vec![1]),
                // a consumer above the importing bind, exporter fed by a map2 over the importer and a variable
                (vec![b(Src::Var(0), Target::Exported(2)), MNode::Map2(Src::Node(0), Src::Var(1)), b(Src::Node(1), Target::FreshExport(3)), MNode::Map(Src::Var(1))], vec![2]),
            ];
            for (nodes, pre) in progs {
                for vars in [[0u8, 1u8], [0, 0], [1, 1]] {
                    out.push(MProg { nodes: nodes.clone(), vars, sub_handler: false, pre_observed: pre.clone() });
                }
            }
        }
        // cycle-small: <= 3 declared nodes; cycle-4: exactly 4 (quick: only programs whose binds
        // start switched on, so that the cycle closes in the first stabilise)
        "misuse/cycle-small" | "misuse/cycle-4" | "misuse/cycle" => {
            let range = match name {
                "misuse/cycle-small" => 1..=3usize,
                "misuse/cycle-4" => 4..=4,
                _ => 1..=4,
            };
            for n in range {
                if only_n.map_or(false, |o| o != n) {
                    continue;
                }
                let mut all = vec![];
                gen(n, Menu::Cycle, &mut vec![], &mut all);
                for nodes in all {
                    let fresh = count(&nodes, |x| matches!(x, MNode::Bind { on: Target::FreshMap(_), .. }));
                    let binds = count(&nodes, |x| matches!(x, MNode::Bind { .. }));
                    if binds == 0 || n + fresh > 4 || !connected(&nodes) {
                        continue;
                    }
                    let (any, pure) = cycles(&nodes);
                    if !any || pure {
                        continue;
                    }
                    let on: [u8; 2] = if binds == 2 { [1, 1] } else { [1, 0] };
                    if !(n == 4 && !thorough) {
                        out.push(MProg { nodes: nodes.clone(), vars: [0, 0], sub_handler: false, pre_observed: vec![] });
                    }
                    out.push(MProg { nodes: nodes.clone(), vars: on, sub_handler: false, pre_observed: vec![] });
                }
            }
        }
        "misuse/cross" => {
            for n in 1..=if thorough { 4 } else { 3usize } {
                let mut all = vec![];
                gen(n, Menu::Cross, &mut vec![], &mut all);
                for nodes in all {
                    let foreign = count(&nodes, |x| matches!(x, MNode::Bind { on: Target::Foreign(_), .. }));
                    if foreign != 1 || !connected(&nodes) || cycles(&nodes).0 {
                        continue;
                    }
                    for s in [[0u8, 0u8], [1, 1]] {
                        out.push(MProg { nodes: nodes.clone(), vars: s, sub_handler: false, pre_observed: vec![] });
                    }
                }
            }
        }
        "misuse/nested" => {
            for n in 1..=if thorough { 4 } else { 3usize } {
                let mut all = vec![];
                gen(n, Menu::Nested, &mut vec![], &mut all);
                for nodes in all {
                    let bad = count(&nodes, |x| matches!(x, MNode::MapStab(_) | MNode::MapUpd(_) | MNode::Bind { on: Target::FreshStab(_), .. }));
                    let fresh = count(&nodes, |x| matches!(x, MNode::Bind { on: Target::FreshStab(_), .. }));
                    if bad != 1 || n + fresh > if thorough { 4 } else { 3 } || !connected(&nodes) || cycles(&nodes).0 {
                        continue;
                    }
                    for s in [[0u8, 0u8], [1, 1]] {
                        out.push(MProg { nodes: nodes.clone(), vars: s, sub_handler: false, pre_observed: vec![] });
                    }
                }
            }
            // subscription handlers calling stabilise, on programs without any other misuse
            for n in 1..=if thorough { 3 } else { 2usize } {
                let mut all = vec![];
                gen(n, Menu::Plain, &mut vec![], &mut all);
                for nodes in all {
                    if !connected(&nodes) || cycles(&nodes).0 {
                        continue;
                    }
                    for s in [[0u8, 0u8], [1, 1]] {
                        out.push(MProg { nodes: nodes.clone(), vars: s, sub_handler: true, pre_observed: vec![] });
                    }
                }
            }
        }
        _ => {}
    }
    out
}
