//! What each property's quick / thorough check runs: jobs = (family of programs) x (profile)
//! x (handler order) x bounds, each split into units that workers execute.

use crate::core::*;
use crate::explore::{Marker, Opts, Stats};
use std::time::Instant;

#[derive(Clone, Copy, Debug, PartialEq, Eq)]
pub enum Tier {
    Quick,
    Thorough,
}

impl Tier {
    pub fn name(self) -> &'static str {
        match self {
            Tier::Quick => "quick",
            Tier::Thorough => "thorough",
        }
    }
}

#[derive(Clone, Debug)]
pub struct JobDef {
    /// family name, resolved by the world module into a deterministic list of programs
    pub family: String,
    pub world: &'static str,
    pub profile: &'static str,
    pub handler_order: Option<bool>,
    pub armed: Vec<&'static str>,
    pub depth: usize,
    pub prune: bool,
    pub max_states: usize,
    pub congruence_depth: usize,
    /// split one program's exploration by its first action (own visited set per split)
    pub split_first: bool,
    /// number of units (filled in by `resolve`)
    pub units: usize,
}

impl JobDef {
    pub fn new(world: &'static str, family: &str, profile: &'static str, depth: usize) -> JobDef {
        JobDef {
            family: family.to_string(),
            world,
            profile,
            handler_order: Some(true),
            armed: vec![],
            depth,
            prune: true,
            max_states: 3_000_000,
            congruence_depth: 0,
            split_first: false,
            units: 0,
        }
    }
    pub fn armed(mut self, a: &[&'static str]) -> Self {
        self.armed = a.to_vec();
        self
    }
    pub fn congruence(mut self, d: usize) -> Self {
        self.congruence_depth = d;
        self
    }
    pub fn order(mut self, o: Option<bool>) -> Self {
        self.handler_order = o;
        self
    }
    pub fn no_prune(mut self) -> Self {
        self.prune = false;
        self
    }
    pub fn cfg(&self) -> Cfg {
        Cfg {
            profile: self.profile,
            handler_order: self.handler_order,
            armed: self.armed.clone(),
        }
    }
    pub fn opts(&self, deadline: Option<Instant>) -> Opts {
        Opts {
            max_depth: self.depth,
            prune: self.prune,
            max_states: self.max_states,
            deadline,
            congruence_depth: self.congruence_depth,
        }
    }
}

pub struct Plan {
    pub property: &'static str,
    pub level: &'static str,
    pub rule: &'static str,
    pub assumptions: Vec<&'static str>,
    pub jobs: Vec<JobDef>,
    /// wall budget for the whole check, seconds
    pub wall_s: u64,
    /// witness counter that counts the distinct non-trivial cases (default: distinct states)
    pub distinct_counter: Option<&'static str>,
}

pub const ALL_PROPERTIES: &[&str] = &[
    "C01", "C02", "C03", "C04", "C05", "C06", "C07", "C08", "C09", "C10", "C11", "C12", "C13", "C14", "C15", "C16", "C17", "C18", "C19", "C20",
];

pub fn static_property(p: &str) -> Option<&'static str> {
    ALL_PROPERTIES.iter().find(|x| **x == p).copied()
}

/// Both profiles of the same job.
fn both(j: JobDef) -> Vec<JobDef> {
    let mut d = j.clone();
    d.profile = "dbg";
    let mut r = j;
    r.profile = "rel";
    vec![r, d]
}

/// Development aid: `HX_ADHOC="world|family|profile|depth|armed,armed|flags" hx check ADHOC quick` runs one
/// ad-hoc job through the worker pool (flags: noprune, split, congruence=N, wall=S). Not registered anywhere.
fn adhoc_plan() -> Option<Plan> {
    let spec = std::env::var("HX_ADHOC").ok()?;
    let f: Vec<&str> = spec.split('|').collect();
    let world: &'static str = Box::leak(f.first()?.to_string().into_boxed_str());
    let profile: &'static str = if f.get(2) == Some(&"dbg") { "dbg" } else { "rel" };
    let mut j = JobDef::new(world, f.get(1)?, profile, f.get(3)?.parse().ok()?);
    j.armed = f.get(4).map(|a| a.split(',').filter_map(static_property).collect()).unwrap_or_default();
    let mut wall = 3600;
    for flag in f.get(5).map(|s| s.split(',').collect::<Vec<_>>()).unwrap_or_default() {
        if flag == "noprune" {
            j.prune = false;
        } else if flag == "split" {
            j.split_first = true;
        } else if let Some(n) = flag.strip_prefix("congruence=") {
            j.congruence_depth = n.parse().unwrap_or(0);
        } else if let Some(n) = flag.strip_prefix("wall=") {
            wall = n.parse().unwrap_or(3600);
        }
    }
    let first: &'static str = j.armed.first().copied().unwrap_or("C01");
    Some(Plan {
        property: first,
        level: "model_checking",
        rule: "ad-hoc development run",
        assumptions: vec![],
        jobs: vec![j],
        wall_s: wall,
        distinct_counter: None,
    })
}

pub fn plan(property: &str, tier: Tier) -> Option<Plan> {
    if property == "ADHOC" {
        return adhoc_plan();
    }
    let q = tier == Tier::Quick;
    let g = |family: &str, profile: &'static str, depth: usize| JobDef::new("graph", family, profile, depth);
    let mc_rule = "bounded exhaustive exploration: every history over the family's alphabet up to the stated depth, from a fresh engine, pruned only on equal canonical digests of the product state (engine dump + reference model + harness); a state is non-trivial/distinct iff its digest is new";
    let mut jobs: Vec<JobDef> = vec![];
    let (level, rule, assumptions, wall): (&'static str, &'static str, Vec<&'static str>, u64) = match property {
        "C01" => {
            let a = ["C01"];
            jobs.push(g("c01/catalogue", "rel", if q { 6 } else { 8 }).armed(&a).congruence(if q { 2 } else { 3 }));
            jobs.push(g("c01/grammar1", "rel", if q { 5 } else { 8 }).armed(&a));
            jobs.push(g(if q { "c01/grammar2-repr" } else { "c01/grammar2" }, "rel", if q { 5 } else { 6 }).armed(&a));
            jobs.push(g("c01/reobserve", "rel", if q { 8 } else { 10 }).armed(&a));
            jobs.push(g("c01/reobserve2", "rel", if q { 8 } else { 10 }).armed(&a));
            jobs.push(g("c01/catalogue", "dbg", if q { 5 } else { 7 }).armed(&a));
            if !q {
                // (quick: the same shapes run as shapes/binds-started below, and unstarted in C02 / C03 / C05)
                jobs.push(g("shapes/binds", "rel", 7).armed(&a));
            }
            jobs.push(g("shapes/fanout", "rel", if q { 6 } else { 8 }).armed(&a));
            jobs.push(g("shapes/xp", "rel", if q { 6 } else { 8 }).armed(&a));
            jobs.push(g("c01/late", "rel", if q { 7 } else { 10 }).armed(&a));
            jobs.push(g("shapes/diamond", "rel", if q { 6 } else { 9 }).armed(&a));
            jobs.push(g("shapes/pending", "rel", if q { 4 } else { 7 }).armed(&a));
            jobs.push(g("shapes/bindvars", "rel", if q { 6 } else { 8 }).armed(&a));
            jobs.push(g("shapes/readopt", "rel", if q { 4 } else { 7 }).armed(&a));
            // a bind main that was queued, released and re-adopted in a later round over an unchanged right-hand side
            jobs.push(g("shapes/binds-started", "rel", if q { 5 } else { 7 }).armed(&a));
            if !q {
                jobs.push(g("c01/grammar3-maps", "rel", 5).armed(&a));
                jobs.push(g("c01/grammar3-binds", "rel", 5).armed(&a));
            }
            ("model_checking", mc_rule, vec!["value domain {0,1,2}", "programs of <= 9 nodes", "<= 2 simultaneous observers", "node functions pure, cutoffs equality-like (the property's proviso)"], if q { 60 } else { 900 })
        }
        "C02" => {
            let a = ["C02"];
            jobs.push(g("shapes/binds", "rel", if q { 6 } else { 8 }).armed(&a));
            jobs.push(g("shapes/binds", "dbg", if q { 5 } else { 7 }).armed(&a));
            if !q {
                jobs.push(g("c01/grammar3-maps", "rel", 5).armed(&a));
                jobs.push(g("c01/grammar3-binds", "rel", 5).armed(&a));
            }
            jobs.push(g("c01/catalogue", "rel", if q { 6 } else { 8 }).armed(&a).congruence(if q { 2 } else { 3 }));
            jobs.push(g("c01/grammar1", "rel", if q { 6 } else { 8 }).armed(&a));
            jobs.push(g(if q { "c01/grammar2-repr" } else { "c01/grammar2" }, "rel", if q { 5 } else { 6 }).armed(&a));
            jobs.push(g("c03/inner", "rel", if q { 4 } else { 6 }).armed(&a));
            jobs.push(g("shapes/fanout", "rel", if q { 6 } else { 8 }).armed(&a));
            jobs.push(g("shapes/xp", "rel", if q { 6 } else { 8 }).armed(&a));
            jobs.push(g("c01/late", "rel", if q { 6 } else { 9 }).armed(&a));
            jobs.push(g("shapes/diamond", "rel", if q { 6 } else { 9 }).armed(&a));
            jobs.push(g("shapes/diamond", "dbg", if q { 5 } else { 8 }).armed(&a));
            jobs.push(g("c01/catalogue", "dbg", if q { 5 } else { 7 }).armed(&a));
            // a bind main lifted inside the recompute heap past a pending node of its new right-hand side
            jobs.push(g("shapes/pending", "rel", if q { 5 } else { 7 }).armed(&a));
            jobs.push(g("shapes/pending", "dbg", if q { 4 } else { 6 }).armed(&a));
            // a computed node released by one bind and picked up by a later one in the same stabilise
            jobs.push(g("shapes/readopt", "rel", if q { 4 } else { 7 }).armed(&a));
            jobs.push(g("shapes/readopt", "dbg", if q { 4 } else { 6 }).armed(&a));
            jobs.push(g("shapes/binds-started", "rel", if q { 5 } else { 7 }).armed(&a));
            ("model_checking", mc_rule, vec!["value domain {0,1,2}", "programs of <= 15 nodes", "internal recompute schedules reached through observe / un-observe orders of <= 2-3 observers"], if q { 60 } else { 900 })
        }
        "C03" => {
            let a = ["C03"];
            jobs.push(g("c03/nested", "rel", if q { 6 } else { 8 }).armed(&a));
            jobs.push(g("shapes/binds", "rel", if q { 6 } else { 7 }).armed(&a));
            jobs.push(g("c03/nested", "dbg", if q { 5 } else { 7 }).armed(&a));
            if !q {
                jobs.push(g("c01/grammar3-binds", "rel", 5).armed(&a));
            }
            jobs.push(g("c03/inner", "rel", if q { 4 } else { 6 }).armed(&a));
            jobs.push(g("c03/stale_rhs", "rel", if q { 6 } else { 9 }).armed(&a));
            jobs.push(g("c01/catalogue", "rel", if q { 6 } else { 8 }).armed(&a));
            jobs.push(g(if q { "c01/grammar2-repr" } else { "c01/grammar2" }, "rel", if q { 5 } else { 6 }).armed(&a));
            jobs.push(g("c03/stale_rhs", "dbg", if q { 5 } else { 8 }).armed(&a));
            // bind closures that create variables (top scope / current scope) and hand back their watch nodes
            jobs.push(g("shapes/bindvars", "rel", if q { 6 } else { 8 }).armed(&a));
            jobs.push(g("shapes/readopt", "rel", if q { 4 } else { 7 }).armed(&a));
            jobs.push(g("shapes/bindvars", "dbg", if q { 5 } else { 7 }).armed(&a));
            ("model_checking", mc_rule, vec!["inner nodes are observed only while their defining bind is observed (DESIGN §8)", "value domain {0,1,2}", "bind nesting depth <= 2"], if q { 60 } else { 900 })
        }
        "C04" => {
            let a = ["C04"];
            for prof in ["rel", "dbg"] {
                jobs.push(g("c01/catalogue", prof, if q { 5 } else { 8 }).armed(&a));
                jobs.push(g("c01/grammar1", prof, if q { 5 } else { 8 }).armed(&a));
                jobs.push(g(if q { "c01/grammar2-repr" } else { "c01/grammar2" }, prof, if q { 4 } else { 6 }).armed(&a));
                jobs.push(g("c03/inner", prof, if q { 3 } else { 6 }).armed(&a));
                jobs.push(g("c03/stale_rhs", prof, if q { 5 } else { 8 }).armed(&a));
                jobs.push(g("c03/nested", prof, if q { 5 } else { 8 }).armed(&a));
                jobs.push(g("shapes/binds", prof, if q { 5 } else { 7 }).armed(&a));
                jobs.push(g("c09/self_unsub", prof, if q { 5 } else { 8 }).armed(&a));
                jobs.push(g("c05/clones", prof, if q { 5 } else { 7 }).armed(&a));
                jobs.push(g("c06/cutoffs", prof, if q { 4 } else { 6 }).armed(&a));
                jobs.push(g("c09/subs", prof, if q { 5 } else { 8 }).armed(&a).order(Some(true)));
                jobs.push(g("c11/on_update", prof, if q { 4 } else { 6 }).armed(&a));
                jobs.push(g("c11/drop_handles", prof, if q { 5 } else { 7 }).armed(&a));
                jobs.push(g("c05/drop_handles", prof, if q { 6 } else { 8 }).armed(&a));
                jobs.push(g("shapes/fanout", prof, if q { 6 } else { 9 }).armed(&a));
                jobs.push(g("shapes/xp", prof, if q { 6 } else { 8 }).armed(&a));
                jobs.push(g("shapes/xp-writes", prof, if q { 5 } else { 7 }).armed(&a));
                jobs.push(g("shapes/fn-writes", prof, if q { 6 } else { 9 }).armed(&a));
                jobs.push(g("shapes/pending", prof, if q { 5 } else { 7 }).armed(&a));
                jobs.push(g("shapes/bindvars", prof, if q { 6 } else { 8 }).armed(&a));
                jobs.push(g("shapes/readopt", prof, if q { 4 } else { 7 }).armed(&a));
                jobs.push(g("c05/on_update", prof, if q { 5 } else { 8 }).armed(&a));
                // the other worlds keep to the usage rules too: their panics are C04's as well (core::also_as_c04)
                jobs.push(JobDef::new("vars", "c08/dropped", prof, if q { 6 } else { 8 }).armed(&a));
                jobs.push(JobDef::new("vars", "c08/late", prof, if q { 5 } else { 7 }).armed(&a));
                jobs.push(JobDef::new("vars", "c08/node", prof, if q { 4 } else { 6 }).armed(&a));
                jobs.push(JobDef::new("expert", "all", prof, if q { 6 } else { 8 }).armed(&a));
                jobs.push(JobDef::new("pkmaps", "c16/all-k2", prof, if q { 4 } else { 6 }).armed(&a));
                jobs.push(JobDef::new("drops", if q { "c12/catalogue" } else { "c12/catalogue-full" }, prof, if q { 12 } else { 14 }).armed(&a).no_prune());
                jobs.push(g("c01/late", prof, if q { 6 } else { 9 }).armed(&a));
                jobs.push(g("shapes/diamond", prof, if q { 5 } else { 8 }).armed(&a));
                jobs.push(g("c09/self_disallow", prof, if q { 5 } else { 8 }).armed(&a));
                jobs.push(g("c05/stale", prof, if q { 7 } else { 9 }).armed(&a));
            }
            ("model_checking", mc_rule, vec!["only well-formed histories are generated (no nested stabilise, no cycles, default height limit, one state, closures own no observers)", "both debug-assertion configurations, same bounds"], if q { 60 } else { 900 })
        }
        "C05" => {
            let a = ["C05"];
            jobs.push(g("shapes/binds", "rel", if q { 6 } else { 7 }).armed(&a));
            if !q {
                jobs.push(g("c01/grammar3-binds", "rel", 5).armed(&a));
            }
            jobs.push(g("c05/clones", "rel", if q { 6 } else { 8 }).armed(&a));
            jobs.push(g("c05/drop_handles", "rel", if q { 7 } else { 9 }).armed(&a));
            jobs.push(g("c05/drop_handles", "dbg", if q { 6 } else { 8 }).armed(&a));
            jobs.push(g("c01/catalogue", "rel", if q { 6 } else { 8 }).armed(&a));
            jobs.push(g(if q { "c01/grammar2-repr" } else { "c01/grammar2" }, "rel", if q { 5 } else { 6 }).armed(&a));
            jobs.push(g("c03/inner", "rel", if q { 4 } else { 6 }).armed(&a));
            jobs.push(g("shapes/fanout", "rel", if q { 6 } else { 8 }).armed(&a));
            jobs.push(g("shapes/xp", "rel", if q { 6 } else { 8 }).armed(&a));
            jobs.push(g("c01/late", "rel", if q { 6 } else { 9 }).armed(&a));
            jobs.push(g("c05/stale", "rel", if q { 8 } else { 10 }).armed(&a));
            jobs.push(g("c05/stale", "dbg", if q { 7 } else { 9 }).armed(&a));
            jobs.push(g("c05/clones", "dbg", if q { 5 } else { 7 }).armed(&a));
            jobs.push(g("shapes/bindvars", "rel", if q { 6 } else { 8 }).armed(&a));
            jobs.push(g("shapes/readopt", "rel", if q { 4 } else { 7 }).armed(&a));
            jobs.push(g("shapes/readopt", "rel", if q { 4 } else { 7 }).armed(&a));
            // Incr::on_update handlers on inner nodes that lose their last observer / their bind
            jobs.push(g("c05/on_update", "rel", if q { 6 } else { 9 }).armed(&a));
            jobs.push(g("c05/on_update", "dbg", if q { 5 } else { 8 }).armed(&a));
            ("model_checking", mc_rule, vec!["dependency cone computed syntactically by the harness from the program and the reference's current bind right-hand sides"], if q { 60 } else { 900 })
        }
        "C06" => {
            let a = ["C06"];
            jobs.push(g(if q { "c06/cutoffs" } else { "c06/cutoffs-full" }, "rel", if q { 6 } else { 8 }).armed(&a));
            jobs.push(g("c01/catalogue", "rel", if q { 6 } else { 8 }).armed(&a));
            jobs.push(g("c01/grammar1", "rel", if q { 6 } else { 8 }).armed(&a));
            jobs.push(g("c01/reobserve2", "rel", if q { 8 } else { 10 }).armed(&a));
            jobs.push(g("shapes/binds", "rel", if q { 6 } else { 7 }).armed(&a));
            jobs.push(g("c06/cutoffs", "dbg", if q { 4 } else { 6 }).armed(&a));
            jobs.push(g("shapes/readopt", "rel", if q { 4 } else { 7 }).armed(&a));
            jobs.push(g("shapes/binds-started", "rel", if q { 5 } else { 7 }).armed(&a));
            // a variable with Cutoff::Never written outside stabilise, from node functions (deferred) and from update
            // handlers: its needed readers must re-run at the next stabilise whatever was written (vars world)
            jobs.push(JobDef::new("vars", "c08/never", "rel", if q { 7 } else { 9 }).armed(&a));
            jobs.push(JobDef::new("vars", "c08/never", "dbg", if q { 6 } else { 8 }).armed(&a));
            ("model_checking", mc_rule, vec!["expert nodes excluded (as the property states)", "depend_on and map_ref-over-map_with_old outputs are not judged for exact re-invocation (DESIGN §6 C06)"], if q { 60 } else { 900 })
        }
        "C07" => {
            let a = ["C07"];
            jobs.push(g("c07/reads", "rel", if q { 6 } else { 8 }).armed(&a));
            // update handlers that write a variable; C01 is armed too: after every stabilise the observers must show
            // the from-scratch values for the assignment that was current when it was called (C07's snapshot clause)
            jobs.push(g("c07/handler_writes", "rel", if q { 6 } else { 8 }).armed(&a));
            jobs.push(g("c07/handler_writes", "dbg", if q { 5 } else { 7 }).armed(&a));
            jobs.push(g("c01/catalogue", "rel", if q { 6 } else { 8 }).armed(&a));
            jobs.push(g("c01/grammar1", "rel", if q { 6 } else { 8 }).armed(&a));
            jobs.push(g("c09/subs", "rel", if q { 5 } else { 7 }).armed(&a));
            jobs.push(g("c07/reads", "dbg", if q { 5 } else { 7 }).armed(&a));
            // expert nodes: reads and variable writes from observability callbacks (run while observers are linked at
            // the start of stabilise, or in mid-propagation when a bind switches), edge callbacks, recompute functions
            jobs.push(g("shapes/xp", "rel", if q { 7 } else { 9 }).armed(&a));
            jobs.push(g("shapes/xp-writes", "rel", if q { 7 } else { 9 }).armed(&a));
            jobs.push(g("shapes/xp-writes", "dbg", if q { 6 } else { 8 }).armed(&a));
            // a node function writes a variable (deferred): the observers still show one assignment
            jobs.push(g("shapes/fn-writes", "rel", if q { 7 } else { 10 }).armed(&a));
            ("model_checking", mc_rule, vec!["reads are issued after every action on every handle, and from inside every node function / handler in family c07/reads"], if q { 60 } else { 900 })
        }
        "C09" => {
            let a = ["C09"];
            for ord in [Some(true), Some(false)] {
                let mut j = g("c09/subs", "rel", if q { 6 } else { 9 }).armed(&a).order(ord).congruence(3);
                j.split_first = true;
                jobs.push(j);
            }
            let mut j = g("c10/focus", "rel", if q { 9 } else { 12 }).armed(&a);
            j.split_first = true;
            jobs.push(j);
            jobs.push(g("c03/inner", "rel", if q { 4 } else { 6 }).armed(&a));
            jobs.push(g("c03/nested", "rel", if q { 6 } else { 8 }).armed(&a));
            jobs.push(g("c09/self_unsub", "rel", if q { 6 } else { 9 }).armed(&a));
            jobs.push(g("c09/self_unsub", "dbg", if q { 5 } else { 7 }).armed(&a));
            for ord in [Some(true), Some(false)] {
                jobs.push(g("c09/self_disallow", "rel", if q { 7 } else { 9 }).armed(&a).order(ord));
            }
            jobs.push(g("c09/self_disallow", "dbg", if q { 6 } else { 8 }).armed(&a));
            jobs.push(g("c07/reads", "rel", if q { 5 } else { 7 }).armed(&a));
            let mut j = g("c09/subs", "dbg", if q { 5 } else { 7 }).armed(&a);
            j.split_first = true;
            jobs.push(j);
            ("model_checking", mc_rule, vec!["<= 2 observers (+1 pinned), <= 2 subscriptions", "both handler iteration orders (hook H2)"], if q { 60 } else { 900 })
        }
        "C10" => {
            let a = ["C10"];
            for ord in [Some(true), Some(false)] {
                let mut j = g("c09/subs", "rel", if q { 6 } else { 9 }).armed(&a).order(ord);
                j.split_first = true;
                jobs.push(j);
            }
            jobs.push(g("c05/clones", "rel", if q { 5 } else { 8 }).armed(&a));
            let mut j = g("c10/focus", "rel", if q { 9 } else { 12 }).armed(&a);
            j.split_first = true;
            jobs.push(j);
            jobs.push(g("c10/differential", "rel", if q { 8 } else { 10 }).armed(&a));
            jobs.push(g("c09/self_disallow", "rel", if q { 6 } else { 8 }).armed(&a));
            let mut j = g("c09/subs", "dbg", if q { 5 } else { 7 }).armed(&a);
            j.split_first = true;
            jobs.push(j);
            ("model_checking", mc_rule, vec!["<= 2 observers (+1 pinned) with <= 2 handles each, <= 2 subscriptions"], if q { 60 } else { 900 })
        }
        "C11" => {
            let a = ["C11"];
            jobs.push(g("c01/catalogue", "rel", if q { 5 } else { 8 }).armed(&a));
            jobs.push(g("c01/grammar1", "rel", if q { 5 } else { 8 }).armed(&a));
            jobs.push(g("c11/on_update", "rel", if q { 5 } else { 7 }).armed(&a));
            jobs.push(g("c11/drop_handles", "rel", if q { 5 } else { 7 }).armed(&a));
            jobs.push(g("c05/drop_handles", "rel", if q { 6 } else { 8 }).armed(&a));
            jobs.push(g("c03/inner", "rel", if q { 3 } else { 5 }).armed(&a));
            let mut j = g("c09/subs", "rel", if q { 5 } else { 7 }).armed(&a);
            j.split_first = true;
            jobs.push(j);
            jobs.push(g("c01/catalogue", "dbg", if q { 4 } else { 6 }).armed(&a));
            jobs.push(g("c11/on_update", "dbg", if q { 4 } else { 6 }).armed(&a));
            jobs.push(g("shapes/fn-writes", "rel", if q { 6 } else { 9 }).armed(&a));
            jobs.push(g("shapes/pending", "rel", if q { 4 } else { 7 }).armed(&a));
            jobs.push(g("shapes/bindvars", "rel", if q { 6 } else { 8 }).armed(&a));
            jobs.push(g("shapes/readopt", "rel", if q { 4 } else { 7 }).armed(&a));
            let mut j = g("c10/focus", "rel", if q { 8 } else { 10 }).armed(&a);
            j.split_first = true;
            jobs.push(j);
            jobs.push(g("shapes/binds", "rel", if q { 5 } else { 7 }).armed(&a));
            jobs.push(g("shapes/fanout", "rel", if q { 6 } else { 8 }).armed(&a));
            jobs.push(g("shapes/fanout", "dbg", if q { 5 } else { 7 }).armed(&a));
            jobs.push(g("shapes/xp", "rel", if q { 6 } else { 8 }).armed(&a));
            jobs.push(g("c01/late", "rel", if q { 6 } else { 9 }).armed(&a));
            jobs.push(g("shapes/diamond", "rel", if q { 5 } else { 8 }).armed(&a));
            jobs.push(g("c05/stale", "rel", if q { 7 } else { 9 }).armed(&a));
            jobs.push(g("c09/self_disallow", "rel", if q { 5 } else { 7 }).armed(&a));
            // the same audit after every action of the expert / incremental-map / variable worlds
            jobs.push(JobDef::new("expert", "all", "rel", if q { 7 } else { 9 }).armed(&a));
            jobs.push(JobDef::new("expert", "all", "dbg", if q { 6 } else { 8 }).armed(&a));
            jobs.push(JobDef::new("pkmaps", "c16/all-k2", "rel", if q { 4 } else { 6 }).armed(&a));
            jobs.push(JobDef::new("maps", "c15/core", "rel", if q { 4 } else { 6 }).armed(&a));
            jobs.push(JobDef::new("vars", "c08/dropped", "rel", if q { 5 } else { 7 }).armed(&a));
            ("model_checking", mc_rule, vec!["audit = hook H1 verif_audit (port of the upstream invariant walkers), run after every single action", "only rules restating a clause of the property decide (DESIGN Appendix B)"], if q { 60 } else { 900 })
        }
        "C08" => {
            let a = ["C08"];
            let w = |family: &str, profile: &'static str, depth: usize| JobDef::new("vars", family, profile, depth).armed(&a);
            if q {
                jobs.push(w("c08/outside", "rel", 8));
                jobs.push(w("c08/node", "rel", 6));
                jobs.push(w("c08/handler", "rel", 6));
                jobs.push(w("c08/selffeed", "rel", 6));
                jobs.push(w("c08/dropped", "rel", 7));
                jobs.push(w("c08/outside", "dbg", 8));
                jobs.push(w("c08/node", "dbg", 5));
                jobs.push(w("c08/handler", "dbg", 5));
                jobs.push(w("c08/selffeed", "dbg", 5));
                jobs.push(w("c08/dropped", "dbg", 6));
                jobs.push(w("c08/never", "rel", 7));
                // the written variable is unwatched at the moment of the write and gets a reader later in the same stabilise
                jobs.push(w("c08/late", "rel", 6));
                jobs.push(w("c08/late", "dbg", 5));
            } else {
                jobs.push(w("c08/late", "rel", 8));
                jobs.push(w("c08/late", "dbg", 7));
                jobs.push(w("c08/late-full", "rel", 5));
                jobs.push(w("c08/never", "rel", 9));
                jobs.push(w("c08/outside-full", "rel", 8));
                jobs.push(w("c08/node", "rel", 7));
                jobs.push(w("c08/handler", "rel", 7));
                jobs.push(w("c08/selffeed", "rel", 8));
                jobs.push(w("c08/dropped", "rel", 8));
                jobs.push(w("c08/node-full", "rel", 5));
                jobs.push(w("c08/handler-full", "rel", 5));
                jobs.push(w("c08/selffeed-full", "rel", 5));
                jobs.push(w("c08/dropped-full", "rel", 6));
                jobs.push(w("c08/outside-full", "dbg", 8));
                jobs.push(w("c08/node", "dbg", 6));
                jobs.push(w("c08/handler", "dbg", 6));
                jobs.push(w("c08/selffeed", "dbg", 6));
                jobs.push(w("c08/dropped", "dbg", 7));
            }
            ("model_checking", "every write script (all sequences of <= 3 of the five write operations; thorough: <= 4) issued from a node function, a bind closure, an update handler or outside, on observed and unobserved variables (including a variable that gets its first reader later in the writing stabilise), combined with every history of {trigger, outside write, observe readers, flip, stabilise, stabilise-until-stable} up to the depth bound; states merged on engine dump + variable model", vec!["variable type i32, constants {5,6}", "get/replace return values inside node functions are not judged (the property makes no claim)"], if q { 60 } else { 900 })
        }
        "C12" => {
            let a = ["C12"];
            let w = |family: &str, profile: &'static str, depth: usize| JobDef::new("drops", family, profile, depth).armed(&a).no_prune();
            // a variable whose last handle is dropped, with its owning closure, in the middle of a stabilise
            // (vars world, site `dropped`; only its C12.panic rule is judged here)
            jobs.push(JobDef::new("vars", "c08/dropped", "rel", if q { 7 } else { 8 }).armed(&a));
            jobs.push(JobDef::new("vars", "c08/dropped", "dbg", if q { 6 } else { 7 }).armed(&a));
            if q {
                jobs.push(w("c12/catalogue", "rel", 12));
                jobs.push(w("c12/catalogue", "dbg", 12));
            } else {
                jobs.push(w("c12/catalogue-full", "rel", 14));
                jobs.push(w("c12/catalogue-full", "dbg", 14));
                let mut j = w("c12/catalogue-7", "rel", 16);
                j.max_states = 20_000_000;
                jobs.push(j);
            }
            ("model_checking", "20 graph shapes x 3 initial conditions: ALL permutations of dropping the user handles and the state, with a stabilise inserted or not after each drop (unpruned enumeration, E1); leak oracles at the two moments the property names", vec!["<= 5 droppable handles per shape (thorough: 6-7)", "leaks are detected through drop flags in closures, a counted value type and WeakIncr::strong_count"], if q { 60 } else { 900 })
        }
        "C15" | "C17" => {
            let me: &'static str = if property == "C15" { "C15" } else { "C17" };
            let a = [me];
            let w = |family: &str, profile: &'static str, depth: usize| JobDef::new("maps", family, profile, depth).armed(&a);
            if q {
                jobs.push(w("c15/rounds-single", "rel", 3).no_prune());
                jobs.push(w("c15/single", "rel", 7));
                jobs.push(w("c15/merge", "rel", 6));
                jobs.push(w("c15/rounds-merge", "rel", 2).no_prune());
                jobs.push(w("c15/single", "dbg", 4));
                jobs.push(w("c15/rounds-single-k2", "dbg", 3).no_prune());
                // operators that run on an input equal to their stored one (input var with Cutoff::Never, or
                // observed on its own while the operator is detached); added after seed C17-a
                jobs.push(w("c15/rounds-never-core-k2", "rel", 3).no_prune());
                jobs.push(w("c15/never-core-k2", "rel", 7));
                jobs.push(w("c15/rounds-pinned-tiny-k2", "rel", 4).no_prune());
                jobs.push(w("c15/pinned-core-k2", "rel", 7));
            } else {
                jobs.push(w("c15/rounds-never-core", "rel", 3).no_prune());
                jobs.push(w("c15/never-core", "rel", 8));
                jobs.push(w("c15/rounds-pinned-core-k2", "rel", 4).no_prune());
                jobs.push(w("c15/pinned-core-k2", "rel", 11));
                jobs.push(w("c15/rounds-never-pinned-core-k2", "rel", 4).no_prune());
                jobs.push(w("c15/single", "rel", 16));
                jobs.push(w("c15/rounds-single", "rel", 3).no_prune());
                let mut j = w("c15/rounds-core", "rel", 4).no_prune();
                j.split_first = true;
                jobs.push(j);
                let mut j = w("c15/merge", "rel", 8);
                j.split_first = true;
                jobs.push(j);
                let mut j = w("c15/rounds-merge", "rel", 3).no_prune();
                j.split_first = true;
                jobs.push(j);
                jobs.push(w("c15/rounds-merge-k1", "rel", 5).no_prune());
                jobs.push(w("c15/single-k4", "rel", 6));
                jobs.push(w("c15/single", "dbg", 7));
                jobs.push(w("c15/rounds-single", "dbg", 3).no_prune());
            }
            if me == "C17" {
                // the per-key graph operators' part of C17 is judged in the pkmaps world
                let pk = |family: &str, profile: &'static str, depth: usize| JobDef::new("pkmaps", family, profile, depth).armed(&a);
                if q {
                    jobs.push(pk("c16/all-k2", "rel", 5));
                    jobs.push(pk("c16/all-k3", "rel", 3));
                    jobs.push(pk("c16/switch-k1", "rel", 7));
                } else {
                    jobs.push(pk("c16/all-k2", "rel", 7));
                    jobs.push(pk("c16/all-k3", "rel", 5));
                }
            }
            ("model_checking", "every operator x map type: (a) all histories of {set input to any of the 3^K maps, toggle observer, stabilise} to the depth bound, pruned on engine dump + model; (b) unpruned round-structured histories (each round: optional observer toggle, every input set to any map, stabilise) so that state hidden in operator closures cannot be merged away", vec!["keys 0..K (K=3; merge K=2), values {1,2}", "reference = plain BTreeMap computations (R5)"], if q { 60 } else { 900 })
        }
        "C14" => {
            let a = ["C14"];
            let w = |family: &str, profile: &'static str, depth: usize| JobDef::new("expert", family, profile, depth).armed(&a).congruence(2);
            if q {
                jobs.push(w("sum", "rel", 8));
                jobs.push(w("join", "rel", 9));
                jobs.push(w("bind", "rel", 9));
                jobs.push(w("sum", "dbg", 7));
                jobs.push(w("join", "dbg", 8));
                jobs.push(w("bind", "dbg", 8));
                // the driver node keeps adding / removing dependencies while the expert node is unobserved
                jobs.push(w("driver", "rel", 8));
                jobs.push(w("driver", "dbg", 7));
                // the expert node is needed only through a regular bind that switches away from it in mid-stabilise
                jobs.push(w("via", "rel", 7));
                jobs.push(w("via", "dbg", 7));
                // ... and its only dependency is invalidated in the same stabilise (focused alphabet, 11 actions needed)
                jobs.push(w("via-inner", "rel", 11));
            } else {
                jobs.push(w("via-inner", "rel", 13));
                jobs.push(w("via-inner", "dbg", 12));
                jobs.push(w("driver", "rel", 10));
                jobs.push(w("driver", "dbg", 9));
                jobs.push(w("via", "rel", 9));
                jobs.push(w("via", "dbg", 8));
                jobs.push(w("sum", "rel", 10));
                jobs.push(w("join", "rel", 11));
                jobs.push(w("bind", "rel", 11));
                let mut j = w("wide", "rel", 7);
                j.split_first = true;
                jobs.push(j);
                jobs.push(w("sum", "dbg", 9));
                jobs.push(w("join", "dbg", 10));
                jobs.push(w("bind", "dbg", 10));
            }
            ("model_checking", "expert-API constructions built in the harness (join, bind, dynamic sum with duplicate dependencies and invalidatable children): all histories of {set selector / multiplicities, set inner vars, toggle the regular bind, observe / un-observe the node and its dependant, make_stale, invalidate, stabilise} to the depth bound; states merged on engine dump + per-edge slots + model (congruence self-check)", vec!["expert nodes are mutated only from the function of one of their children (the documented rule)", "extra edge callbacks are not judged, only missing / stale ones"], if q { 60 } else { 900 })
        }
        "C16" => {
            let a = ["C16"];
            let pk = |family: &str, profile: &'static str, depth: usize| JobDef::new("pkmaps", family, profile, depth).armed(&a);
            if q {
                jobs.push(pk("c16/all-k2", "rel", 6));
                jobs.push(pk("c16/all-k3", "rel", 4));
                jobs.push(pk("c16/all-k2", "dbg", 5));
                jobs.push(pk("c16/shared-pinned-k1", "rel", 8));
                // per-key function with a bind on the outer variable that decides whether the key's input is read
                jobs.push(pk("c16/switch-k1", "rel", 8));
                jobs.push(pk("c16/switch-k1", "dbg", 7));
                // the per-key function exports its input nodes, one of them stays observed: the operator's driver runs
                // while the output is unobserved
                jobs.push(pk("c16/leak-k2", "rel", 8));
                jobs.push(pk("c16/leak-k2", "dbg", 7));
            } else {
                jobs.push(pk("c16/leak-k2", "rel", 10));
                jobs.push(pk("c16/leak-k2", "dbg", 9));
                jobs.push(pk("c16/switch-k1", "rel", 10));
                jobs.push(pk("c16/switch-k2", "rel", 7));
                jobs.push(pk("c16/switch-k1", "dbg", 9));
                jobs.push(pk("c16/all-k2", "rel", 8));
                jobs.push(pk("c16/all-k3", "rel", 6));
                jobs.push(pk("c16/all-k2", "dbg", 7));
                jobs.push(pk("c16/shared-pinned-k1", "rel", 10));
                jobs.push(pk("c16/shared-pinned-k2", "rel", 8));
            }
            ("model_checking", "incr_mapi_ / incr_filter_mapi_ / _cutoff variants on BTreeMap and OrdMap x 9 per-key user-function variants (pure map, identity, map2 with an outer var, bind on the value choosing existing / building fresh nodes, functions ignoring their input, one shared node for all keys): all histories of {set map to any of the 3^K maps, set outer var, toggle observer, stabilise} to the depth bound; states merged on engine dump + model + key->node table (validated by the congruence self-check and against an unpruned run)", vec!["K=2 (9 maps) and K=3 (27 maps), values {1,2}, outer var in {0,1,2}"], if q { 60 } else { 900 })
        }
        "C18" => {
            let a = ["C18"];
            let w = |family: &str, profile: &'static str, size: usize| JobDef::new("maps", family, profile, size).armed(&a).no_prune();
            let (k_pairs, k_quads, n_big) = if q { (5, 3, 100) } else { (7, 4, 300) };
            for f in ["c18/pairs-bt", "c18/pairs-rc", "c18/pairs-om", "c18/pairs-om-shared"] {
                jobs.push(w(f, "rel", k_pairs));
            }
            for f in ["c18/merge-quads-bt", "c18/merge-quads-om", "c18/merge-quads-om-shared"] {
                jobs.push(w(f, "rel", k_quads));
            }
            jobs.push(w("c18/big-om", "rel", n_big));
            jobs.push(w("c18/pairs-bt", "dbg", if q { 4 } else { 6 }));
            jobs.push(w("c18/pairs-om", "dbg", if q { 4 } else { 6 }));
            ("exploration", "exhaustive input enumeration (E4): ALL ordered pairs of maps over K keys x 2 values through the public symmetric_fold of each map type (with and without structure sharing), ALL quadruples (old/new left, old/new right) through a real incr_merge graph judged on the merge function's call log, plus a structured enumeration of single-edit pairs on multi-node OrdMaps; a case is one pair/quadruple, distinct_nontrivial counts distinct cases", vec!["the 'randomly over larger ones' clause of the quantifier is not addressed (sampling is a different technique)"], if q { 60 } else { 900 })
        }
        "C19" => {
            let a = ["C19"];
            let t = if q { "" } else { "+thorough" };
            let w = |family: &str, profile: &'static str, depth: usize| JobDef::new("limits", &format!("{family}{t}"), profile, depth).armed(&a);
            for prof in ["rel", "dbg"] {
                jobs.push(w("height/ctor", prof, 6));
                jobs.push(w("height/default", prof, 6));
                jobs.push(w("misuse/cycle-small", prof, if q { 6 } else { 7 }));
                jobs.push(w("misuse/cycle-4", prof, if q { 4 } else { 6 }));
                jobs.push(w("misuse/cross", prof, if q { 5 } else { 6 }));
                jobs.push(w("misuse/nested", prof, if q { 5 } else { 6 }));
                jobs.push(w("misuse/scope-cycle", prof, if q { 7 } else { 10 }));
            }
            ("model_checking", "limited state vs. an unlimited twin (the needed height is read from the twin through hook H1, no height convention baked in): N in 1..6 (thorough 10), set_max_height_allowed(M) with M in 1..8 (12) at every quiescent point of build / observe / stabilise / grow / shrink histories over map chains and bind nests whose heights land around N; all grammar-enumerated programs of <= 4 nodes closing a cycle through 1-2 binds, returning a foreign-state node, or calling stabilise from a node function / update handler; drop of all handles in 4 orders after every expected panic; both debug-assertion configurations", vec!["a height above the limit that is needed only transiently within one stabilise is unjudged", "shrinking below a height that was seen but is no longer in use is unjudged", "hangs / stack overflows are attributed by the supervisor's watchdog and marker file"], if q { 60 } else { 900 })
        }
        "C20" => {
            let a = ["C20"];
            let w = |family: &str, profile: &'static str, depth: usize| {
                let mut j = JobDef::new("memo", family, profile, depth).armed(&a);
                j.split_first = true;
                j
            };
            for prof in ["rel", "dbg"] {
                let d = |quick: usize, thorough: usize| if q { quick } else { thorough };
                jobs.push(w("memo/top", prof, d(9, 11)));
                jobs.push(w("memo/bind1", prof, d(8, 9)));
                jobs.push(w("memo/bind2", prof, d(6, 7)));
                jobs.push(w("memo/nested", prof, d(7, 8)));
                jobs.push(w("memo/nested+bind", prof, d(6, 7)));
            }
            ("model_checking", "weak_memoize_fn called at top level and from inside (nested) bind closures: all histories of {call memo(k) at top level, set bind vars (re-running closures that call memo), set the base var, observe / drop returned nodes, drop observers, drop binds, stabilise}, k in {0,1}, to the depth bound; states merged on engine dump + the harness's mirror of the memo table", vec!["'same node' is judged only when the harness itself still holds the previous result; 'function invoked again' only when nothing can reference the key during one complete stabilise; other calls are unjudged and the model follows the engine"], if q { 60 } else { 900 })
        }
        "C13" => {
            let a = ["C13"];
            jobs.push(g("c13/faults", "rel", if q { 7 } else { 9 }).armed(&a));
            jobs.push(g("c13/faults", "dbg", if q { 5 } else { 8 }).armed(&a));
            (
                "fault_enumeration",
                "every history explored by the digest-pruned BFS that ends in stabilise is re-executed once per user-closure invocation (node function, bind closure, cutoff function, update handler) of that stabilise with a panic injected exactly there, in two drop orders; a case = (history, crash point); distinct_nontrivial counts the distinct (history, crash point) pairs in which the injected panic really fired",
                vec!["crash points are invocations of instrumented user closures only (allocation failure etc. not modelled)", "post-panic script: reads, writes, new observer, further stabilise, drop of everything in two orders"],
                if q { 60 } else { 900 },
            )
        }
        _ => return None,
    };
    Some(Plan {
        property: static_property(property)?,
        level,
        rule,
        assumptions,
        jobs,
        wall_s: wall,
        distinct_counter: match property {
            "C13" => Some("fault_points"),
            _ => None,
        },
    })
}

/// Dispatch: number of units of a job and execution of one unit.
pub fn resolve_units(job: &JobDef, tier: Tier) -> usize {
    match job.world {
        "graph" => crate::graph::driver::units(job, tier),
        "maps" => crate::maps::units(job, tier),
        "pkmaps" => crate::pkmaps::units(job, tier),
        "expert" => crate::expert::units(job, tier),
        "limits" => crate::limits::units(job, tier),
        "memo" => crate::memo::units(job, tier),
        "vars" => crate::vars::units(job, tier),
        "drops" => crate::drops::units(job, tier),
        _ => 0,
    }
}

pub fn run_unit(job: &JobDef, job_ix: u32, unit: usize, tier: Tier, deadline: Option<Instant>, marker: &Marker, stats: &mut Stats) {
    match job.world {
        "graph" => crate::graph::driver::run_unit(job, job_ix, unit, tier, deadline, marker, stats),
        "maps" => crate::maps::run_unit(job, job_ix, unit, tier, deadline, marker, stats),
        "pkmaps" => crate::pkmaps::run_unit(job, job_ix, unit, tier, deadline, marker, stats),
        "expert" => crate::expert::run_unit(job, job_ix, unit, tier, deadline, marker, stats),
        "limits" => crate::limits::run_unit(job, job_ix, unit, tier, deadline, marker, stats),
        "memo" => crate::memo::run_unit(job, job_ix, unit, tier, deadline, marker, stats),
        "vars" => crate::vars::run_unit(job, job_ix, unit, tier, deadline, marker, stats),
        "drops" => crate::drops::run_unit(job, job_ix, unit, tier, deadline, marker, stats),
        w => stats.machinery_errors.push(format!("unknown world {w}")),
    }
}

/// Re-execute one recorded history (replay files); returns (violations with step index, per-step
/// explanation, observation hash).
pub fn replay(world: &str, cfg: &Cfg, prog: &serde_json::Value, history: &[serde_json::Value]) -> Result<(Vec<(usize, Violation)>, Vec<String>, u64), String> {
    match world {
        "graph" => crate::graph::driver::replay(cfg, prog, history),
        "maps" => crate::maps::replay(cfg, prog, history),
        "pkmaps" => crate::pkmaps::replay(cfg, prog, history),
        "expert" => crate::expert::replay(cfg, prog, history),
        "limits" => crate::limits::replay(cfg, prog, history),
        "memo" => crate::memo::replay(cfg, prog, history),
        "vars" => crate::vars::replay(cfg, prog, history),
        "drops" => crate::drops::replay(cfg, prog, history),
        w => Err(format!("unknown world {w}")),
    }
}

/// Rebuild the history named by an abort marker (choice indices into `enabled()`).
pub fn history_from_choices(job: &JobDef, unit: usize, tier: Tier, choices: &[u16]) -> Option<(serde_json::Value, Vec<serde_json::Value>)> {
    match job.world {
        "graph" => crate::graph::driver::history_from_choices(job, unit, tier, choices),
        "maps" => crate::maps::history_from_choices(job, unit, tier, choices),
        "pkmaps" => crate::pkmaps::history_from_choices(job, unit, tier, choices),
        "expert" => crate::expert::history_from_choices(job, unit, tier, choices),
        "limits" => crate::limits::history_from_choices(job, unit, tier, choices),
        "memo" => crate::memo::history_from_choices(job, unit, tier, choices),
        "vars" => crate::vars::history_from_choices(job, unit, tier, choices),
        "drops" => crate::drops::history_from_choices(job, unit, tier, choices),
        _ => None,
    }
}

#[allow(dead_code)]
pub fn unused(_: Vec<JobDef>) -> Vec<JobDef> {
    both(JobDef::new("graph", "x", "rel", 1))
}
