//! The one dynamic value type every node in a scenario carries, and the (pure, total)
//! user-function menu of DESIGN §3.

use std::fmt;

#[derive(Clone, PartialEq, Eq, Hash, PartialOrd, Ord)]
pub enum Val {
    I(i32),
    P(Box<Val>, Box<Val>),
}

impl Default for Val {
    fn default() -> Self {
        Val::I(0)
    }
}

impl fmt::Debug for Val {
    fn fmt(&self, f: &mut fmt::Formatter<'_>) -> fmt::Result {
        match self {
            Val::I(x) => write!(f, "{x}"),
            Val::P(a, b) => write!(f, "<{a:?}|{b:?}>"),
        }
    }
}

impl Val {
    pub fn pair(a: Val, b: Val) -> Val {
        Val::P(Box::new(a), Box::new(b))
    }
    /// total numeric projection
    pub fn num(&self) -> i32 {
        match self {
            Val::I(x) => *x,
            Val::P(a, b) => a.num().wrapping_mul(7).wrapping_add(b.num()),
        }
    }
    /// `map_ref` projection: first component of a pair, identity on integers
    pub fn fst(&self) -> &Val {
        match self {
            Val::I(_) => self,
            Val::P(a, _) => a,
        }
    }
    pub fn to_json(&self) -> serde_json::Value {
        serde_json::Value::String(format!("{self:?}"))
    }
}

#[derive(Clone, Copy, Debug, PartialEq, Eq, Hash)]
pub enum F1 {
    /// x + 1 (injective)
    Inc,
    /// x mod 2 (collapsing)
    Par,
    /// x / 2 (collapsing, keeps more than parity)
    Half,
}

impl F1 {
    pub fn apply(self, x: &Val) -> Val {
        let n = x.num();
        Val::I(match self {
            F1::Inc => n.wrapping_add(1),
            F1::Par => n.rem_euclid(2),
            F1::Half => n.div_euclid(2),
        })
    }
    pub fn name(self) -> &'static str {
        match self {
            F1::Inc => "inc",
            F1::Par => "par",
            F1::Half => "half",
        }
    }
    pub fn from_name(s: &str) -> Option<F1> {
        Some(match s {
            "inc" => F1::Inc,
            "par" => F1::Par,
            "half" => F1::Half,
            _ => return None,
        })
    }
}

#[derive(Clone, Copy, Debug, PartialEq, Eq, Hash)]
pub enum F2 {
    /// 3a + b (injective on the small domain)
    Mix,
    /// max(a, b) (collapsing)
    Max,
}

impl F2 {
    pub fn apply(self, a: &Val, b: &Val) -> Val {
        let (a, b) = (a.num(), b.num());
        Val::I(match self {
            F2::Mix => a.wrapping_mul(3).wrapping_add(b),
            F2::Max => a.max(b),
        })
    }
    pub fn name(self) -> &'static str {
        match self {
            F2::Mix => "mix",
            F2::Max => "max",
        }
    }
    pub fn from_name(s: &str) -> Option<F2> {
        Some(match s {
            "mix" => F2::Mix,
            "max" => F2::Max,
            _ => return None,
        })
    }
}

/// fold / mapN: sum of the inputs
pub fn sum<'a>(xs: impl Iterator<Item = &'a Val>) -> Val {
    Val::I(xs.fold(0i32, |a, x| a.wrapping_add(x.num())))
}

/// the function a bind-created `F` node applies: mix(captured lhs value, input)
pub fn captured_mix(captured: &Val, x: &Val) -> Val {
    Val::I(
        captured
            .num()
            .wrapping_mul(10)
            .wrapping_add(100)
            .wrapping_add(x.num()),
    )
}

#[derive(Clone, Copy, Debug, PartialEq, Eq, Hash)]
pub enum Cut {
    /// Cutoff::PartialEq (the default)
    Default,
    Never,
    Always,
    /// Cutoff::Fn(eq)
    FnEq,
    /// Cutoff::FnBoxed(eq)
    BoxEq,
    /// Cutoff::Fn(|a,b| a%2 == b%2)  (coarser than equality; C06 only)
    FnPar,
    /// Cutoff::FnBoxed(par-equal)
    BoxPar,
    /// Cutoff::Fn(par-equal) whose calls are not logged and are no fault points: the only coarse cutoff a
    /// `map_ref` can carry in the families (the engine consults a map_ref's cutoff from `child_changed`,
    /// possibly several times per round, so call counts / arguments are not judged there). Added after seed C06-b.
    QuietPar,
}

impl Cut {
    /// does this cutoff suppress the transition old -> new?
    pub fn suppresses(self, old: &Val, new: &Val) -> bool {
        match self {
            Cut::Default | Cut::FnEq | Cut::BoxEq => old == new,
            Cut::Never => false,
            Cut::Always => true,
            Cut::FnPar | Cut::BoxPar | Cut::QuietPar => old.num().rem_euclid(2) == new.num().rem_euclid(2),
        }
    }
    /// "cutoffs only suppress equal values" (the C01 proviso)
    pub fn is_equality_like(self) -> bool {
        matches!(self, Cut::Default | Cut::Never | Cut::FnEq | Cut::BoxEq)
    }
    pub fn is_logged(self) -> bool {
        matches!(self, Cut::FnEq | Cut::BoxEq | Cut::FnPar | Cut::BoxPar)
    }
    pub fn name(self) -> &'static str {
        match self {
            Cut::Default => "default",
            Cut::Never => "never",
            Cut::Always => "always",
            Cut::FnEq => "fn_eq",
            Cut::BoxEq => "box_eq",
            Cut::FnPar => "fn_par",
            Cut::BoxPar => "box_par",
            Cut::QuietPar => "quiet_par",
        }
    }
    pub fn from_name(s: &str) -> Option<Cut> {
        Some(match s {
            "default" => Cut::Default,
            "never" => Cut::Never,
            "always" => Cut::Always,
            "fn_eq" => Cut::FnEq,
            "box_eq" => Cut::BoxEq,
            "fn_par" => Cut::FnPar,
            "box_par" => Cut::BoxPar,
            "quiet_par" => Cut::QuietPar,
            _ => return None,
        })
    }
}
