#!/bin/sh
# Builds the harness in both profiles (debug assertions off / on), offline, from /repo's working tree.
set -e
cd "$(dirname "$0")/hx"
export CARGO_NET_OFFLINE=true
cargo build --release 2>&1 | tail -2
cargo build --profile dbg --target-dir "$(pwd)/target/dbg-build" 2>&1 | tail -2
