#!/bin/sh
# Development aid: build the harness from /verif/hx but with the *committed* versions of the
# world modules that other people are still editing (maps pkmaps expert limits memo vars drops).
# Result in /tmp/hx-main; run with:  HX_BIN_DIR=/tmp/hx-main/target HX_OUT_DIR=/tmp/hx-main-out /tmp/hx-main/target/release/hx ...
set -e
UNFINISHED="${UNFINISHED-pkmaps expert limits memo}"
mkdir -p /tmp/hx-main /tmp/hx-main-out
rsync -a --delete --exclude target $(for w in $UNFINISHED; do printf -- "--exclude src/$w "; done) /verif/hx/ /tmp/hx-main/
for w in $UNFINISHED; do
  mkdir -p /tmp/hx-main/src/$w
  git -C /verif show 91b5e71:hx/src/$w/mod.rs > /tmp/hx-main/src/$w/mod.rs
done
cd /tmp/hx-main
cargo build --release 2>&1 | grep -E "^error" -A12 | head -40
cargo build --profile dbg --target-dir /tmp/hx-main/target/dbg-build 2>&1 | grep -E "^error" -A12 | head -40
cp /verif/known_findings.jsonl /tmp/hx-main-out/ 2>/dev/null || true
echo built
