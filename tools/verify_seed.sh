#!/bin/sh
# tools/verify_seed.sh <worktree> <seed-id>
# Confirms a seeded change: (1) existing suite passes with it, (2) its demo fails with it,
# (3) the demo passes without it. Then stores patch.diff + demo under /verif/seeded/<seed-id>/.
set -e
WT="$1"; ID="$2"
cd "$WT"
export CARGO_TARGET_DIR="$WT/target"
DEMO=$(git status --porcelain | awk '/^\?\? .*seeded_demo.rs/ {print $2}' | head -1)
[ -n "$DEMO" ] || { echo "no demo test found"; exit 2; }
case "$DEMO" in incremental-map/*) PKG="-p incremental-map";; *) PKG="-p incremental";; esac
git diff -- src incremental-map/src > /tmp/seed-$ID.patch
[ -s /tmp/seed-$ID.patch ] || { echo "empty library patch"; exit 2; }
echo "== suite with change (demo excluded)"
mv "$DEMO" /tmp/seed-$ID-demo.rs
cargo test --workspace --no-fail-fast --offline 2>&1 | grep -E "^test result" | awk '{p+=$4; f+=$6} END {print "passed", p, "failed", f}'
cp /tmp/seed-$ID-demo.rs "$DEMO"
echo "== demo with change (expect failure)"
cargo test $PKG --offline --test seeded_demo 2>&1 | grep -E "^test result|panicked" | head -5
echo "== demo without change (expect pass)"
# (no git stash: the stash stack is shared by all worktrees of a repository)
git checkout -q -- src incremental-map/src
cargo test $PKG --offline --test seeded_demo 2>&1 | grep -E "^test result" | head -3
git apply /tmp/seed-$ID.patch
mkdir -p /verif/seeded/$ID
cp /tmp/seed-$ID.patch /verif/seeded/$ID/patch.diff
cp "$DEMO" /verif/seeded/$ID/seeded_demo.rs
[ -f SEEDED.md ] && cp SEEDED.md /verif/seeded/$ID/SEEDED.md
echo "stored in /verif/seeded/$ID (demo path: $DEMO)"
