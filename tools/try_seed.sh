#!/bin/sh
# tools/try_seed.sh <worktree> <seed-id> <Cxx> [<Cxx> ...]
# Confirm a sub-agent's seeded change (tools/verify_seed.sh), store it under /verif/seeded/<id>, then run the named
# quick checks against the worktree (tools/check_against.sh). Output dir /tmp/out-<id> is removed afterwards unless KEEP=1.
WT="$1"; ID="$2"; shift 2
/verif/tools/verify_seed.sh "$WT" "$ID" 2>&1 | tail -12
OUT=/tmp/out-$ID
rm -rf "$OUT"; mkdir -p "$OUT"; cp /verif/known_findings.jsonl "$OUT/"
for p in "$@"; do
  HX_WALL_SCALE="${HX_WALL_SCALE:-3}" /verif/tools/check_against.sh "$WT" "$OUT" "$p" >"$OUT/log-$p.txt" 2>&1
  echo "== $ID vs $p: rc=$? $(grep -c '^VIOLATION' $OUT/log-$p.txt) signatures"
  grep -A1 '^VIOLATION' "$OUT/log-$p.txt" | grep -v '^--' | cut -c1-260 | head -8
  head -1 "$OUT/log-$p.txt" | cut -c1-200
done
[ -n "$KEEP" ] || rm -rf "$OUT"
