#!/bin/sh
# tools/seed_matrix.sh [-t tier] [-p "Cxx Cyy"] [seed-id ...]
# Regression of detection: for every seeded change under /verif/seeded (or the ones named), apply its patch to a
# scratch worktree of /repo (never to /repo itself), run the quick check of the property it breaks (plus any given
# with -p) against that worktree through tools/check_against.sh, and print one line per (seed, check):
#     <seed> <Cxx> rc=<exit status> signatures=<n> first=<first VIOLATION signature>
# The worktree and the scratch build are removed at the end. Development aid only.
TIER=quick
EXTRA=""
while [ $# -gt 0 ]; do
  case "$1" in
    -t) TIER="$2"; shift 2;;
    -p) EXTRA="$2"; shift 2;;
    *) break;;
  esac
done
SEEDS="$*"
[ -n "$SEEDS" ] || SEEDS=$(ls /verif/seeded)
WT="${SM_WT:-/tmp/sm-repo}"; OUT="${SM_OUT:-/tmp/sm-out}"
git -C /repo worktree remove --force "$WT" 2>/dev/null
rm -rf "$WT" "$OUT"
git -C /repo worktree add --detach "$WT" HEAD >/dev/null 2>&1 || { echo "cannot create worktree"; exit 2; }
mkdir -p "$OUT"
cp /verif/known_findings.jsonl "$OUT/"
for s in $SEEDS; do
  d=/verif/seeded/$s
  prop=$(python3 -c "import json;print(json.load(open('$d/meta.json'))['property'])")
  git -C "$WT" checkout -q -- . && git -C "$WT" apply "$d/patch.diff" || { echo "$s patch does not apply"; continue; }
  for p in $prop $EXTRA; do
    rm -rf "$OUT/replays" "$OUT/evidence"
    /verif/tools/check_against.sh "$WT" "$OUT" "$p" -- "$TIER" >"$OUT/log-$s-$p.txt" 2>&1
    rc=$?
    n=$(grep -c '^VIOLATION' "$OUT/log-$s-$p.txt")
    first=$(grep -m1 '^VIOLATION' "$OUT/log-$s-$p.txt" | cut -c1-160)
    echo "$s $p rc=$rc signatures=$n $first"
  done
done
git -C "$WT" checkout -q -- .
git -C /repo worktree remove --force "$WT"
[ -n "$SM_KEEP" ] || rm -rf "$OUT"
