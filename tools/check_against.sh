#!/bin/sh
# tools/check_against.sh <repo-dir> <out-dir> <Cxx> [<Cxx> ...] [-- tier]
# Runs the same checks as ./check, but against a *copy* of the repository (e.g. a scratch git
# worktree with a seeded change applied), without touching /repo or /verif/evidence.
# The harness sources are copied to <out-dir>/hx with the path dependencies rewritten.
# Development aid only: the registered checks always run against /repo itself.
set -e
REPO="$1"; OUT="$2"; shift 2
TIER=quick
PROPS=""
while [ $# -gt 0 ]; do
  case "$1" in
    --) shift; TIER="$1"; shift;;
    *) PROPS="$PROPS $1"; shift;;
  esac
done
mkdir -p "$OUT/hx"
rsync -a --delete --exclude target "${HX_SRC:-/verif/hx}/" "$OUT/hx/"
sed -i "s#path = \"/repo/incremental-map\"#path = \"$REPO/incremental-map\"#; s#path = \"/repo\"#path = \"$REPO\"#" "$OUT/hx/Cargo.toml"
cd "$OUT/hx"
export CARGO_NET_OFFLINE=true
cargo build --release >"$OUT/build-rel.log" 2>&1 || { echo "BUILD FAILED (release)"; tail -20 "$OUT/build-rel.log"; exit 2; }
cargo build --profile dbg --target-dir "$OUT/hx/target/dbg-build" >"$OUT/build-dbg.log" 2>&1 || { echo "BUILD FAILED (dbg)"; tail -20 "$OUT/build-dbg.log"; exit 2; }
export HX_BIN_DIR="$OUT/hx/target" HX_OUT_DIR="$OUT"
rc=0
for p in $PROPS; do
  "$OUT/hx/target/release/hx" check "$p" "$TIER" || rc=$?
done
exit $rc
