#!/usr/bin/env python3
"""tools/mk_seed_prompt.py <Cxx> <worktree> [extra-hint...]
Prints the prompt handed to a fresh sub-agent for one seeded change: the property text (statement, quantifier,
why_tests_cant), the scratch worktree, the functions earlier seeds already edited ("do not touch"), and the
house rules (demo location, how to run the suite). Nothing else from /verif is revealed."""
import json, sys, os, re, glob

pid, wt = sys.argv[1], sys.argv[2]
hint = " ".join(sys.argv[3:])
prop = None
for l in open('/verif/properties.jsonl'):
    p = json.loads(l)
    if p['id'] == pid:
        prop = p
assert prop
avoid = []
for d in sorted(glob.glob(f'/verif/seeded/{pid}-*')):
    try:
        m = json.load(open(d + '/meta.json'))
        avoid.append(m['summary'][:220])
    except Exception:
        pass
ismap = pid in ('C15', 'C16', 'C17', 'C18')
demo = 'incremental-map/tests/seeded_demo.rs' if ismap else 'tests/seeded_demo.rs'
print(f"""You are helping test a verification framework by writing a *seeded defect* (a mutant) for the Rust library
cormacrelf/incremental-rs (a port of Jane Street's Incremental: self-adjusting computation). You have your own scratch git
worktree of the library at {wt} (work ONLY there; never touch /repo or /verif, and do not read /verif). Use
`export CARGO_TARGET_DIR={wt}/target CARGO_NET_OFFLINE=true` for every cargo command (there is no network).

The property to break:

  id: {pid}
  title: {prop['title']}
  statement: {prop['statement']}
  quantifier: {prop['quantifier']['text']}
  why the existing tests cannot settle it: {prop['why_tests_cant']}
  code anchors (files): {', '.join(prop['anchors']['files'])}

Your task: make a small, realistic change to the library source (under {wt}/src and/or {wt}/incremental-map/src only --
not tests, not Cargo files) that BREAKS this property, while
  (1) the crate still compiles, and the whole existing test suite still passes:
        cd {wt} && cargo test --workspace --no-fail-fast --offline
  (2) the breakage needs something *specific* to manifest -- a multi-step sequence of operations, a particular order of
      observing/creating/dropping, an unusual input or combination of API features, or two cooperating edits that each look
      fine alone -- NOT something ordinary use would expose at once. Think like a plausible maintainer mistake: an
      off-by-one, a wrong comparison, a flag cleared/set at the wrong moment, an early return, a stale cached value,
      an optimisation ("fast path") that is wrong in a corner case, bookkeeping updated on the wrong object.
  (3) you write ONE demonstration integration test file at {wt}/{demo} (only public API of the crates; no cfg flags) that
      FAILS with your change and PASSES on the unchanged library. Verify both yourself (use `git stash` NEVER -- the stash is
      shared between worktrees; instead save your diff with `git diff -- src incremental-map/src > /tmp/{pid}-r7.patch`,
      `git checkout -- src incremental-map/src`, run the demo, then `git apply /tmp/{pid}-r7.patch`).
        run the demo with: cargo test {'-p incremental-map' if ismap else '-p incremental'} --offline --test seeded_demo
  The demonstration must exercise only *well-formed* use of the library as the property describes (no closure that owns an
  Observer, no nested stabilise unless the property is about misuse, etc.) and its failing assertion must be a violation of
  the property as stated (wrong value, extra/missing invocation, wrong notification, panic, leak ...), not of some stricter
  expectation.

Earlier rounds already produced the following changes for this property; do NOT reuse these sites or mechanisms -- find a
different function / different mechanism:
""" + "".join(f"  - {a}\n" for a in avoid) + f"""
{('Preferred direction for this round: ' + hint) if hint else ''}

Leave the worktree with your library change applied (uncommitted) and the demo file present (untracked). Also write
{wt}/SEEDED.md with: what you changed and why it breaks the property, what is needed for it to manifest, and the exact
commands you ran with their results. Do not commit. Your final message should summarise the change (file/function), the
trigger, and confirm the three verifications (suite passes with change: N passed; demo fails with change; demo passes without).
If after honest effort you cannot find a change that passes the existing suite, say so plainly rather than weakening the requirements.
""")
